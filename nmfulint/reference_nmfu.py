#!/usr/bin/env python
"""
NMFU - the "no memory for you" "parser" generator.

designed to create what a compsci major would yell at me for calling a dfa to parse files/protocols character by character while using as little
RAM as possible.

Copyright (C) 2020-2023 Matthew Mirvish

This program is free software: you can redistribute it and/or modify
it under the terms of the GNU General Public License as published by
the Free Software Foundation, either version 3 of the License, or
(at your option) any later version.

This program is distributed in the hope that it will be useful,
but WITHOUT ANY WARRANTY; without even the implied warranty of
MERCHANTABILITY or FITNESS FOR A PARTICULAR PURPOSE.  See the
GNU General Public License for more details.
"""

__version__ = "0.5.8"

import abc
import enum
import string
import itertools
import queue
import io
import textwrap
import os
import sys
import weakref
try:
    import lark
except ImportError: # pragma: no cover
    print("... failed to import lark; must be in setup.py ...", file=sys.stderr)
    # Mock it
    class lark:
        Token = None
        Tree = None
        
        @staticmethod
        def Lark(*args, **kwargs):
            return None
        
        LarkError = RuntimeError
from collections import defaultdict, Counter
from typing import List, Optional, Iterable, Dict, Union, Set, Tuple
try: # pragma: no cover
    import graphviz
    debug_enabled = True
    import lark.tree
except ImportError: # pragma: no cover
    debug_enabled = False

grammar = r"""
start: top_decl* parser_decl top_decl*

?top_decl: out_decl
         | macro_decl
         | hook_decl
         | code_decl

out_decl: "out" out_type IDENTIFIER ";"
        | "out" out_type IDENTIFIER "=" atom ";"

code_decl: RESULT_CODE IDENTIFIER ("," IDENTIFIER)* ";"

out_type: "bool" -> bool_type
        | "int" ("{" int_attr ("," int_attr)* "}")? -> int_type
        | "enum" "{" IDENTIFIER ("," IDENTIFIER)+ "}" -> enum_type
        | "str" "[" RADIX_NUMBER "]" -> str_type
        | "unterminated" "str" "[" RADIX_NUMBER "]" -> unterm_str_type
        | "raw" "{" IDENTIFIER "}" -> raw_type

int_attr: SIGNED -> signed_attr
        | "size" NUMBER -> width_attr

hook_decl: "hook" IDENTIFIER ";"

macro_decl: "macro" IDENTIFIER macro_args "{" statement* "}"

macro_args: "(" macro_arg ("," macro_arg)* ")"
          | "(" ")" -> macro_arg_empty

macro_arg: "macro" IDENTIFIER -> macro_macro_arg
         | "out"   IDENTIFIER -> macro_out_arg
         | "match" IDENTIFIER -> macro_match_expr_arg
         | "expr"  IDENTIFIER -> macro_int_expr_arg
         | "hook"  IDENTIFIER -> macro_hook_arg
         | "loop"  IDENTIFIER -> macro_breaktgt_arg
         | RESULT_CODE IDENTIFIER -> macro_rescode_arg

parser_decl: "parser" "{" statement+ "}"

?statement: block_stmt
          | simple_stmt ";"

simple_stmt: expr -> match_stmt
           | IDENTIFIER "=" expr -> assign_stmt
           | IDENTIFIER "+=" expr -> append_stmt
           | IDENTIFIER "(" (expr ("," expr)*)? ")" -> call_stmt
           | "break" IDENTIFIER? -> break_stmt
           | "delete" IDENTIFIER -> delete_stmt
           | "finish" -> finish_stmt
           | "finish" IDENTIFIER -> custom_finish_stmt
           | "yield" IDENTIFIER -> custom_yield_stmt
           | "wait" expr -> wait_stmt

block_stmt: "loop" IDENTIFIER? "{" statement+ "}" -> loop_stmt
          | "case" "{" case_clause+ "}" -> case_stmt
          | "greedy" "case" "{" greedy_prio_block+ "}" -> greedy_case_stmt
          | "optional" "{" statement+ "}" -> optional_stmt
          | "try" "{" statement+ "}" catch_block -> try_stmt
          | "foreach" "{" statement+ "}" "do" "{" foreach_actions "}" -> foreach_stmt
          | "if" if_condition ("elif" if_condition)* else_condition? -> if_stmt

if_condition: _math_expr "{" statement+ "}"
else_condition: "else" "{" statement+ "}"

foreach_actions: statement+

catch_block: "catch" catch_options? "{" statement* "}"

?greedy_prio_block: "prio" NUMBER case_clause
                  | "prio" NUMBER "{" case_clause+ "}"
                  | case_clause

case_clause: case_predicate ("," case_predicate)* "->" "{" statement* "}"
case_predicate: "else" -> else_predicate
              | expr -> expr_predicate

catch_options: "(" CATCH_OPTION ("," CATCH_OPTION)* ")" 

// EXPRESSIONS

?expr: atom // either literal or string depending on context
     | regex // not an atom to simplify things
     | binary_regex
     | "end" -> end_expr
     | "(" expr+ ")" -> concat_expr
     | "[" _math_expr "]"

atom: BOOL_CONST -> bool_const
    | RADIX_NUMBER -> number_const
    | CHAR_CONSTANT -> char_const
    | STRING_CASE -> string_case_const
    | STRING_BINARY -> binary_string_const
    | STRING -> string_const
    | IDENTIFIER -> identifier_const

_math_expr: disjunction_expr

?disjunction_expr: conjunction_expr ("||" conjunction_expr)*
?conjunction_expr: bit_or_expr ("&&" bit_or_expr)*
?bit_or_expr: bit_xor_expr ("|" bit_xor_expr)*
?bit_xor_expr: bit_and_expr ("^" bit_and_expr)*
?bit_and_expr: comp_expr ("&" comp_expr)*
?comp_expr: shift_expr (CMP_OP shift_expr)?
// nmfu does not allow (1 << 2 << 3) because that is dumb
?shift_expr: sum_expr (SHIFT_OP sum_expr)?
?sum_expr: mul_expr (SUM_OP mul_expr)*
?mul_expr: math_unary (MUL_OP math_unary)*
?math_unary: math_atom
           | "!" math_atom -> not_expr
           | "-" math_atom -> negate_expr
?math_atom: RADIX_NUMBER -> math_num
          | IDENTIFIER -> math_var
          | IDENTIFIER ".len" -> math_str_len
          | IDENTIFIER "[" _math_expr "]" -> math_str_index
          | CHAR_CONSTANT -> math_char_const
          | BOOL_CONST -> bool_const
          | "$" IDENTIFIER -> builtin_math_var
          | "(" _math_expr ")"

// REGEX

// Uses templates to avoid duplication

regex: "/" regex_alternation "/"

regex_char_class: "\\" REGEX_CHARCLASS
?regex_alternation: regex_group ("|" regex_group)*
?regex_group: regex_alternation_element+
?regex_alternation_element: regex_literal
                          | regex_literal REGEX_OP -> regex_operation
                          | regex_literal "{" NUMBER "}" -> regex_exact_repeat
                          | regex_literal "{" NUMBER "," NUMBER "}" -> regex_range_repeat
                          | regex_literal "{" NUMBER "," "}" -> regex_at_least_repeat

?regex_literal: REGEX_UNIMPORTANT -> regex_raw_match // creates multiple char classes
              | regex_char_class // creates a char class
              | "(" regex_alternation ")" -> regex_group
              | "[^" regex_set_element+ "]" -> regex_inverted_set // creates an inverted char class
              | "[" regex_set_element+ "]" -> regex_set // creates a char class
              | "." -> regex_any // creates an inverted char class

?regex_set_element: REGEX_CHARGROUP_ELEMENT_RAW
                  | REGEX_CHARGROUP_ELEMENT_RAW "-" REGEX_CHARGROUP_ELEMENT_RAW -> regex_set_range
                  | regex_char_class

binary_regex: "b/" binary_regex_alternation "/"
?binary_regex_alternation: binary_regex_group ("|" binary_regex_group)*

?binary_regex_group: binary_regex_alternation_element+
?binary_regex_alternation_element: binary_regex_literal
                          | binary_regex_literal REGEX_OP -> binary_regex_operation
                          | binary_regex_literal "{" NUMBER "}" -> binary_regex_exact_repeat
                          | binary_regex_literal "{" NUMBER "," NUMBER "}" -> binary_regex_range_repeat
                          | binary_regex_literal "{" NUMBER "," "}" -> binary_regex_at_least_repeat

?binary_regex_literal: REGEX_BYTE -> binary_regex_raw_match // creates multiple char classes
                     | "(" binary_regex_alternation ")" -> binary_regex_group
                     | "[^" binary_regex_set_element+ "]" -> binary_regex_inverted_set // creates an inverted char class
                     | "[" binary_regex_set_element+ "]" -> binary_regex_set // creates a char class
                     | "." -> binary_regex_any // creates an inverted char class

?binary_regex_set_element: REGEX_BYTE
                         | REGEX_BYTE "-" REGEX_BYTE -> binary_regex_set_range

// BINARY REGEX

// TERMINALS
BOOL_CONST: /true|false/

// catch options
CATCH_OPTION: /nomatch|outofspace/

RESULT_CODE: /yieldcode|finishcode/

%import common.CNAME -> CNAME
%import common.SIGNED_INT -> NUMBER
%import common.HEXDIGIT

HEX_NUMBER: ["+"|"-"] "0x" HEXDIGIT+
BIN_NUMBER: "0b" ("0"|"1")+
RADIX_NUMBER: HEX_NUMBER | BIN_NUMBER | NUMBER
IDENTIFIER.-1: CNAME

STRING: /"(?:[^"\\]|\\.)*"/
// (the suffix is part of the token: between two tokens blanks and comments are skipped, and `"x" i` is a string followed by the name i)
STRING_CASE: STRING "i"
STRING_BINARY: STRING "b"

// regex internals
REGEX_UNIMPORTANT: /[^.?*()\[\]\\+{}|\/]|\\\.|\\\*|\\\(|\\\)|\\\[|\\\]|\\\+|\\\\|\\\{|\\\}|\\\||\\\//
REGEX_OP: /[+*?]/
REGEX_CHARGROUP_ELEMENT_RAW: /[^\-\]\\\/]|\\-|\\\]|\\\\|\\\//
REGEX_CHARCLASS: /[wWdDsSntr ]/
REGEX_BYTE: /[0-9a-fA-F]{2}/

// math
SUM_OP: /[+-]/
MUL_OP: /[*\/%]/
CMP_OP: /[!=]=/ | /[<>]=?/
CHAR_CONSTANT: /'[^'\\]'/ | /'\\.'/
SHIFT_OP: "<<" | ">>" 

SIGNED: "signed" | "unsigned"

// comments

%import common.WS
COMMENT: /\s*\/\/[^\n]*/

%ignore WS
%ignore COMMENT
"""

all_sum_expr_nodes = [
    "disjunction_expr",
    "conjunction_expr",
    "comp_expr",
    "sum_expr",
    "mul_expr",
    "math_num",
    "negate_expr",
    "not_expr",
    "shift_expr",
    "bit_or_expr",
    "bit_xor_expr",
    "bit_and_expr",
    "math_str_len",
    "math_str_index",
    "math_var",
    "math_char_const",
    "builtin_math_var"
]

parser = lark.Lark(grammar, propagate_positions=True, lexer="dynamic_complete", start=["start", "regex"])

"""
NMFU operates in a few 'stages':

- 1. conversion to actual AST (removes variable assignments and turns them into actions)
- 2a. conversion to state machine recursively with abstract actions
- 2b. (optional) state machine optimizing
- 3. codegen

The overall architecture is similar to MLang, with various context classes which each steal the resources from a
predecessor ctx.
"""

# ===========
# STATE TYPES
# ===========

class DFTransition:
    """
    A transition

    on_values is a set of characters (or integers)
    """

    # Special tokens
    Else = type('_DFElse', (), {'__repr__': lambda x: "Else"})()
    End = type('_DFEnd', (), {'__repr__': lambda x: "End"})()

    def __init__(self, on_values=None, fallthrough=False, error_handling=False):
        if type(on_values) is not list:
            if type(on_values) is str or on_values in [DFTransition.Else, DFTransition.End]:
                on_values = [on_values]
            elif on_values is None:
                on_values = []
            else:
                on_values = list(on_values)

        self.on_values = on_values
        self.target = None
        self.is_fallthrough = fallthrough
        self.error_handling = error_handling
        self.actions = []
        # how many of the actions, from the front, stand for statements in front of the one that takes the byte (they were chained in)
        self.leading_actions = 0

    def copy(self):
        my_copy = DFTransition()
        my_copy.on_values = self.on_values.copy()
        my_copy.actions = self.actions.copy()
        my_copy.leading_actions = self.leading_actions
        my_copy.target = self.target
        my_copy.is_fallthrough = self.is_fallthrough
        my_copy.error_handling = self.error_handling
        return my_copy

    def __repr__(self):
        error = "error " if self.error_handling else ""
        if self.actions:
            return f"<DFTransition {error}on={self.on_values} to={self.target} actions={self.actions} fallthough={self.is_fallthrough}>"
        else:
            return f"<DFTransition {error}on={self.on_values} to={self.target} fallthough={self.is_fallthrough}>"

    def attach(self, *actions, prepend=False):
        if prepend:
            self.actions = list(actions) + self.actions
            self.leading_actions += len(actions)
        else:
            self.actions.extend(actions)
        return self

    def attach_for_this_byte(self, *actions):
        """
        Attach actions that belong to the byte the transition takes: behind what was chained in from the statements in front of it, and behind
        its own appends (a byte that does not fit is not taken here, it is handed to the out-of-space handler).
        """

        position = self.leading_actions
        for index, action in enumerate(self.actions):
            if index >= position and isinstance(action, AppendTo):
                position = index + 1
        self.actions[position:position] = actions
        return self
    
    def to(self, target):
        if isinstance(target, int):
            self.target = DFState.all_states[target]
        else:
            self.target = target
        return self

    def fallthrough(self, fall=True):
        self.is_fallthrough = fall
        return self

    def handles_else(self, handles=True):
        self.error_handling = handles
        return self

    @classmethod
    def from_key(cls, on_values, inherited):
        result = cls(on_values).to(inherited.target).attach(*inherited.actions).fallthrough(inherited.is_fallthrough).handles_else(inherited.error_handling)
        result.leading_actions = inherited.leading_actions
        return result

class DFConditionalTransition(DFTransition):
    def __init__(self, condition: "DFCondition"):
        super().__init__(on_values=(), fallthrough=True)
        self.condition = condition

    def constrain(self, *conditions, join_as_or=False):
        # TODO: work properly
        self.condition = conditions[0]

    def __repr__(self):
        if self.actions:
            return f"<DFConditionalTransition on={self.condition!r} to={self.target} actions={self.actions}>"
        else:
            return f"<DFConditionalTransition on={self.condition!r} to={self.target}>"

class DFState:
    all_states = {}

    def __init__(self):
        self.transitions = []
        DFState.all_states[id(self)] = self

    def transition(self, transition, allow_replace=False, allow_replace_if=None, collapse_else=True):
        if isinstance(transition, DFConditionalTransition):
            raise IllegalDFAStateError("Invalid condition transition on normal state", self)
        # Add parent relationship if this is a new transition
        if ProgramData.lookup(transition, DTAG.PARENT) is None:
            ProgramData.imbue(transition, DTAG.PARENT, self)
        if allow_replace_if is None:
            allow_replace_constant = True if allow_replace else False  # don't allow reference binding
            allow_replace = lambda x: allow_replace_constant
        else:
            allow_replace = allow_replace_if

        contained = set()
        for i in self.all_transitions():
            if set(i.on_values) & set(transition.on_values):
                contained.add(i)
                break
        if contained and any(x.target != transition.target or x.is_fallthrough != transition.is_fallthrough or x.error_handling != transition.error_handling for x in contained):
            for contain in contained:
                if allow_replace(contain):
                    for x in transition.on_values:
                        try:
                            contain.on_values.remove(x)
                        except ValueError:
                            continue
                    if not contain.on_values:
                        self.transitions.remove(contain)
                else:
                    raise IllegalDFAStateError("Duplicate transition", self)
        elif contained:
            return # don't add duplicate entries in the table

        # Check if we can "inline" this transition
        if collapse_else:
            for transition_in in self.transitions:
                if transition_in.actions == transition.actions and transition_in.target == transition.target and transition_in.is_fallthrough == transition.is_fallthrough and transition_in.error_handling == transition.error_handling:
                    if DFTransition.Else in transition_in.on_values or DFTransition.Else in transition.on_values:
                        transition_in.on_values = [DFTransition.Else]
                    else:
                        transition_in.on_values = list(set(transition_in.on_values) | set(transition.on_values))
                    return self
        self.transitions.append(transition)
        return self

    def all_transitions(self) -> Iterable[DFTransition]:
        yield from self.transitions

    def all_transitions_for(self, on_values):
        for i in self.transitions:
            if len(set(i.on_values) & set(on_values)):
                yield i

    def compute_foreign_else_definition(self, other_state: "DFState") -> Set:
        r"""
        Given two states

           (self) -(a,b,c)-> ...
             \-----(ELSE)-> ...       

        and

           (other) ---(a)-> ...
             \-----(ELSE)-> ...

        it should be clear that the specific meaning of ELSE differs on both.

        This function returns a (potentially super-)set of the symbols which ELSE
        on a _foreign_ state (like "other") will match on this state.
        """

        our_alphabet = self.local_alphabet()
        their_alphabet = other_state.local_alphabet()

        local_else_additions = our_alphabet - their_alphabet
        local_else_additions.add(DFTransition.Else)
        return local_else_additions

    def __setitem__(self, key, data):
        if type(key) in (tuple, list, set, frozenset):
            on_values = key
        else:
            on_values = [key]

        if type(data) is DFTransition:
            self.transition(DFTransition.from_key(on_values, data), True)
        else:
            self.transition(DFTransition(on_values).to(data), True)

    def __delitem__(self, key):
        if type(key) in (tuple, list, set, frozenset):
            on_values = key
        else:
            on_values = [key]
        contained = None
        for i in self.all_transitions():
            if set(i.on_values) & set(on_values):
                contained = i
                break
        if contained is not None:
            for on_value in on_values:
                contained.on_values.remove(on_value)
            if not contained.on_values:
                self.transitions.remove(contained)

    def __getitem__(self, data):
        """
        Get the transition that would be followed for data, including Else if applicable
        """
        if type(data) in (list, tuple, set, frozenset):
            data = frozenset(data)
            for i in self.all_transitions():
                if not i.on_values:
                    continue
                if data <= set(i.on_values):
                    return i
                elif data & set(i.on_values):
                    return None # only part of data follows this transition: there is no single answer
            return self[DFTransition.Else]
        else:
            for i in self.all_transitions():
                if data in i.on_values:
                    return i
            if DFTransition.Else != data:
                return self[DFTransition.Else]

    def local_alphabet(self, excluding=(DFTransition.Else,)) -> Set:
        """
        Get the 'local alphabet': all symbols that are matched by this state excluding some set.
        """

        local_alphabet = set()
        for trans in self.transitions:
            for i in trans.on_values:
                if i in excluding: continue
                local_alphabet.add(i)
        return local_alphabet

class DFProxyState(DFState):
    """
    Represents a state that only contains the equivalent of a fallthrough else
    tansition to another state; in other words a pure "proxy" to another state, potentially
    with some number of actions/conditions. 

    Note this class on its own does not _enforce_ these constraints, and will break if used in a way that
    violates them.
    """

    def can_eliminate(self):
        """
        Can this node be eliminated?
        """

        for transition in self.all_transitions():
            if transition.actions:
                return False

        return True

    def non_proxy_frontiers(self):
        """
        Return the set of states reachable from following only proxy states, starting at this state.
        """

        visited = set()
        sources = set()

        def aux(state):
            if state in visited:
                return
            visited.add(state)
            if isinstance(state, DFProxyState):
                for t in state.all_transitions():
                    aux(t.target)
                    # Also consider actions with overrides
                    for action in t.actions:
                        if action.get_target_override_mode() in (ActionOverrideMode.MAY_GOTO_TARGET, ActionOverrideMode.ALWAYS_GOTO_OTHER):
                            for extra in action.get_target_override_targets():
                                aux(extra)
            else:
                sources.add(state)

        aux(self)
        
        return sources

    def equivalent_on_values(self):
        r"""
        Compute an "equivalent" set of on_values, such that taking any one will have at least one valid path through all directly-attached condition points, in addition
        to a set of on_values which map to the treat_as_else state in _all_ outcomes.

        i.e. for  a -t-> b -<c>-> c
                   \-f-> d -<else>-> e
                          \-<f>-> ELSE

        we'd return ({c, else}, {f}), since f should go to an error state in some equivalent state E replacing a, and c/else should continue on. This lets us rewrite the dfa as

        E -{c,else}=> a -> ...
         \-f=> ELSE 

        which is a valid construction for append_after.
        """

        encountered = set()
        candidate_else = set()

        sources = self.non_proxy_frontiers()
        for state in sources:
            for t in state.all_transitions():
                if t.error_handling:
                    candidate_else.update(t.on_values)
                else:
                    encountered.update(t.on_values)

        filtered = set()
        for possible in candidate_else:
            for state in sources:
                if state[possible] is None:
                    continue
                if not state[possible].error_handling:
                    filtered.add(possible)

        encountered.update(filtered)
        candidate_else.difference_update(filtered)

        return encountered, candidate_else


class DFConditionPoint(DFProxyState):
    """
    Represents a single "condition point": a node which only has fallthrough conditional-transitions. A conditional-transition
    doesn't match input, rather it just selects some unambiguous path to continue on
    """

    def __init__(self):
        super().__init__()
        self.transitions = []

    def transition(self, transition):
        if not isinstance(transition, DFConditionalTransition):
            raise IllegalDFAStateError("Invalid normal transition on condition point", self)
        if transition in self.transitions:
            return
        if ProgramData.lookup(transition, DTAG.PARENT) is None: 
            ProgramData.imbue(transition, DTAG.PARENT, self)
        self.transitions.append(transition)

    def __getitem__(self, key): # pragma: no cover
        raise NotImplementedError()
    def __delitem__(self, key): # pragma: no cover
        raise NotImplementedError()
    def __setitem__(self, key): # pragma: no cover
        raise NotImplementedError()

    def can_eliminate(self):
        return False
        

class DFA:
    all_state_machines = {}

    def __init__(self):
        self.accepting_states = []
        self.starting_state = None
        self.states: List[DFState] = []

    def add(self, state):
        if ProgramData.lookup(state, DTAG.PARENT) is None:
            ProgramData.imbue(state, DTAG.PARENT, self)
        if self.starting_state == None:
            self.starting_state = state
        self.states.append(state)

    def mark_accepting(self, state):
        if isinstance(state, int):
            state = DFState.all_states[state]
        # (a state is accepting or it is not: listed twice -- the shared body of a case clause with two labels is joined on once per label -- it
        # would be handed whatever is chained at the end twice, and stay accepting when it is taken off the list once)
        if state not in self.accepting_states:
            self.accepting_states.append(state)

    def simulate(self, actions):
        """
        Attempt to simulate what would happen given the input states.
        """

        return list(st for _, st, act in self.trace(actions) if act is None)[-1]

    def trace(self, actions):
        """
        Record a trace of all actions and state transitions executed given some input, in the form
        (char, state, action)
        """

        position = self.starting_state
        yield (None, position, None)

        for action_char in actions:
            try:
                while True:
                    if position is None:
                        break
                    transition = position[action_char]
                    position = transition.target
                    yield (action_char, position, None)
                    for action in transition.actions:
                        yield (action_char, position, action)
                        if action.get_target_override_mode() == ActionOverrideMode.ALWAYS_GOTO_OTHER:
                            potential = action.get_target_override_targets() # TODO: handle correctly
                            position = potential[0]
                        elif action.get_target_override_mode() == ActionOverrideMode.ALWAYS_GOTO_UNDEFINED:
                            yield (action_char, action, None)
                            return
                    if not transition.is_fallthrough:
                        break
            except AttributeError:
                yield (action_char, None, None)
                return
            else:
                if not position:
                    yield (action_char, None, None)
                    return

    def simulate_accepts(self, actions):
        """
        Determine if a given input ends with a success or fail (considers FinishAction)
        """

        result = self.simulate(actions)
        if result in self.accepting_states:
            return True
        if isinstance(result, FinishAction):
            return True
        return False

    def dfs(self, also_from=()):
        """
        Construct a dfs-order traversal of the DFA (from the starting state, and from any additional states given)
        """

        visited = set()

        def aux(state):
            if not state:
                return
            if state in visited:
                return
            visited.add(state)
            yield state

            for t in state.all_transitions():
                use_real = True
                for action in t.actions:
                    if action.get_target_override_mode() == ActionOverrideMode.ALWAYS_GOTO_OTHER:
                        use_real = False
                        for tgt in action.get_target_override_targets():
                            yield from aux(tgt)
                        break
                    elif action.get_target_override_mode() == ActionOverrideMode.ALWAYS_GOTO_UNDEFINED:
                        use_real = False
                        break
                    elif action.get_target_override_mode() == ActionOverrideMode.MAY_GOTO_TARGET:
                        for tgt in action.get_target_override_targets():
                            yield from aux(tgt)
                if use_real:
                    yield from aux(t.target)

        yield from aux(self.starting_state)
        for extra_root in also_from:
            yield from aux(extra_root)

    def error_handling_transitions(self, include_states=False):
        """
        Return a set of all transitions that are marked as error handling from the start state
        """

        result = set()

        for state, t in self.all_transitions(True):
            if t.error_handling:
                if include_states:
                    result.add((state, t))
                else:
                    result.add(t)

        return result


    def transitions_pointing_to(self, target_state: DFState, include_states=False):
        """
        Return a set of all transitions that point to the target state that are reachable
        from the start state
        """

        result = set()

        for state, t in self.all_transitions(True):
            if t.target == target_state:
                if include_states:
                    result.add((state, t))
                else:
                    result.add(t)

        return result

    def transitions_that_do(self, action: "Action"):
        """
        Return a set of all transitions that contain the action and that are reachable
        from the start state
        """

        result = set()

        for t in self.all_transitions():
            if action in t.actions:
                result.add(t)

        return result

    def all_transitions(self, include_states=False):
        """
        Yield all reachable transitions
        """

        for state in self.dfs():
            for action in state.all_transitions():
                if include_states:
                    yield (state, action)
                else:
                    yield action

    def is_valid(self):
        """
        Can we still reach at least one accept state?
        """

        for state in self.dfs():
            if state in self.accepting_states:
                return True

        return False

    def append_after(self, chained_dfa: "DFA", sub_states=None, mark_accept=True, chain_actions=None):
        """
        Add the chained_dfa in such a way that its start state "becomes" all of the `sub_states` (or if unspecified, the accept states of _this_ dfa).

        If mark_accept is True, we should replace the accept states that we currently have with corresponding ones based on the chained dfa.
        If chain_actions is not empty, we add those actions to all new transitions. This does _not_ create potential ambiguity, as the original start
        states of chained DFAs are kept in-tact, so loops work properly. In other wors, chain_actions will only be run once and so is a suitable mechanism
        for adding finish actions.
        """

        if sub_states is None:
            sub_states = self.accepting_states

        if chain_actions is None:
            chain_actions = []

        fake_initial_transition = None

        def resolve_transitions_for_error(transition, symbolset):
            if transition is not fake_initial_transition:
                yield transition
            else:
                condition_point: DFConditionPoint = transition.target
                visited = set()
                for i in condition_point.non_proxy_frontiers():
                    local_symbolset = symbolset.copy()
                    if DFTransition.Else in local_symbolset:
                        local_symbolset.remove(DFTransition.Else)
                        local_symbolset |= i.compute_foreign_else_definition(condition_point)
                    for symbol in local_symbolset:
                        transition = i[symbol]
                        if transition is None or transition in visited: # (a branch that ends the program has no transition at all)
                            continue
                        visited.add(transition)
                        if not transition.error_handling:
                            yield transition

        if isinstance(chained_dfa.starting_state, DFProxyState):
            # Add an extra state that will represent the condition point properly (see docs for equivalent_on_values)
            valid, to_else = chained_dfa.starting_state.equivalent_on_values()
            only_acts = isinstance(chained_dfa.starting_state, DFConditionPoint) and not valid and not to_else
            if only_acts:
                # None of the branches starts with a match (they only act, yield or finish): the condition is evaluated on whatever the
                # preceding statement does not continue with, without consuming it (like a yield that ends a block)
                valid = {DFTransition.Else}
            if valid:
                fake_start = DFState()
                chained_dfa.add(fake_start)

                fake_start[valid] = chained_dfa.starting_state
                fake_initial_transition = fake_start[valid].fallthrough(True)
                if only_acts:
                    fake_initial_transition.handles_else()
                if to_else: # nothing is left for the error side when the branches between them take every byte and end-of-input
                    fake_start[to_else] = chained_dfa.starting_state
                    fake_start[to_else].fallthrough(True).handles_else()
                chained_dfa.starting_state = fake_start

        # An action that may send the machine elsewhere (a break under an if, a finish, an append that overflows) cannot ride on the transitions that
        # consume the first byte of what follows: leaving, it would take that byte along, and on any other byte it would not be reached at all.
        if any(sub.get_target_override_mode() != ActionOverrideMode.NONE for action in chain_actions for sub in action.all_subactions()):
            sub_states = [self.append_action_step(chain_actions, sub_states)]
            chain_actions = []

        # If the caller wants to chain actions into a DFA which potentially matches the empty string, we have to place the actions onto 
        # transitions going into the sub_states, instead of on transitions coming out of them that we generate. This adds more opportunities
        # for "unable to schedule strict"-type errors, but avoids missing actions in these cases.
        if chain_actions and chained_dfa.starting_state in chained_dfa.accepting_states:
            # (nothing points at the starting state yet: see chain_actions_at_end; and the target of an action -- the handler an append that does not
            # fit leaves for -- is entered without taking a transition at all)
            jumped_to = set(target for transition in self.all_transitions() for action in transition.actions for sub in action.all_subactions() for target in sub.get_target_override_targets())
            # A state that goes on matching is not left for good when it is entered either (the pattern of a greedy clause that a longer one continues).
            entered_otherwise = [x for x in sub_states if x is self.starting_state or x in jumped_to or any(not t.error_handling for t in x.transitions)]
            self.chain_actions_into(chain_actions, [x for x in sub_states if x not in entered_otherwise])
            if entered_otherwise:
                sub_states = [x for x in sub_states if x not in entered_otherwise] + [self.append_action_step(chain_actions, entered_otherwise)]
            chain_actions = [] # Since the actions are already handled, don't try to add them to new transitions.

        # Check for ambiguity: if any transitions added to a sub_state try to redirect a valid character a different valid
        # state, there is ambiguity. In other words, we only want to add transitions that would previously lead to the error state.

        chained_transitions = [x for x in chained_dfa.starting_state.transitions if DFTransition.Else in x.on_values]
        chained_transitions.extend(x for x in chained_dfa.starting_state.transitions if DFTransition.Else not in x.on_values)

        valid_replacers = set()

        for transition in chained_transitions:
            if transition.error_handling:
                continue
            valid_replacers.add(transition.target)

        # A state entered without consuming (behind an action step) sees the byte its predecessor did not continue with. What the predecessor does
        # continue with never gets there: if it also starts the chained machine, which of the two it belongs to is as ambiguous as at a plain join.
        for sub_state in sub_states:
            for predecessor, step in self.transitions_pointing_to(sub_state, include_states=True):
                if not step.is_fallthrough or step.error_handling or isinstance(predecessor, DFProxyState):
                    continue
                for transition in chained_transitions:
                    if transition.error_handling:
                        continue
                    starts_on = set(transition.on_values)
                    if DFTransition.Else in starts_on:
                        starts_on.update(predecessor.compute_foreign_else_definition(chained_dfa.starting_state))
                    for symbol in starts_on:
                        continues = predecessor[symbol]
                        if continues is not None and continues is not step and not continues.error_handling and not continues.is_fallthrough and continues.target != transition.target:
                            raise IllegalDFAStateConflictsError("Ambiguous transitions detected while joining DFAs", continues, transition)

        for sub_state in sub_states:
            # Compute the "local else additions": what things that are matched by Else in the chained start state which Else in the sub_state does _not_ match.
            # Note that we only handle this in one direction; technically sub_state[Else] could refer to a smaller set than chained.start[Else] but that shouldn't
            # matter too much.

            sub_local_alphabet = sub_state.local_alphabet()
            local_else_meaning = sub_state.compute_foreign_else_definition(chained_dfa.starting_state)

            culled_chained_transitions = []

            for transition in chained_transitions:
                culled_transition = transition.copy()

                relevant_values = set(transition.on_values)
                irrelevant_values = set()
                if DFTransition.Else in relevant_values:
                    relevant_values.update(local_else_meaning)
                target = sub_state[relevant_values]
                if target is None:
                    targets = set()
                    for value in relevant_values:
                        v = sub_state[value]
                        if v is None:
                            irrelevant_values.add(value)
                            continue
                        targets.add(v)
                    relevant_values -= irrelevant_values
                else:
                    targets = {target} 

                # targets is the set of all (potentially) conflicting transitions

                if transition.error_handling:
                    # Cull values
                    for j in relevant_values.copy():
                        if sub_state[j] is not None and not sub_state[j].error_handling:
                            relevant_values.remove(j)
                elif not all(x.error_handling or x.target == transition.target for x in targets):
                    if ProgramData.dump(DebugDumpable.DFA) and ProgramData.do(ProgramFlag.VERBOSE_AMBIG_ERRORS): # pragma: no cover
                        debug_dump_dfa(self, "ae_dfa2", highlight=sub_state)
                        debug_dump_dfa(chained_dfa, "ae_dfa1")
                    dprint[ProgramFlag.VERBOSE_AMBIG_ERRORS]("TT", transition)
                    dprint[ProgramFlag.VERBOSE_AMBIG_ERRORS]("TA", targets)
                    targets = [x for x in targets if not x.error_handling and x.target != transition.target]
                    dprint[ProgramFlag.VERBOSE_AMBIG_ERRORS]("TAF", targets)
                    dprint[ProgramFlag.VERBOSE_AMBIG_ERRORS]("RV", relevant_values)
                    for i in relevant_values:
                        if sub_state[i] not in targets:
                            irrelevant_values.add(i)
                    relevant_values -= irrelevant_values
                    dprint[ProgramFlag.VERBOSE_AMBIG_ERRORS]("RVF", relevant_values)
                    
                    # Come up with a reasonable description of which characters are ambiguous
                    if relevant_values == {DFTransition.Else}: # wildcard notation hard to represent
                        rv_suffix = ""
                    else:
                        relevant_values_in_msg = relevant_values - {DFTransition.Else}
                        if len(relevant_values_in_msg) >= 3:
                            relevant_values_in_msg = list(relevant_values_in_msg)[:3]
                        if ProgramData.do(ProgramFlag.CODEPOINTS_IN_ERRORS):
                            rv_suffix = f" on symbol{'s' if len(relevant_values_in_msg) > 1 else ''} {', '.join(format(ord(x), '02x') if isinstance(x, str) else repr(x) for x in relevant_values_in_msg)}"
                        else:
                            rv_suffix = f" on character{'s' if len(relevant_values_in_msg) > 1 else ''} {', '.join(repr(x) for x in (relevant_values_in_msg))}"

                    raise IllegalDFAStateConflictsError("Ambiguous transitions detected while joining DFAs" + rv_suffix, *itertools.chain(
                        *(resolve_transitions_for_error(x, relevant_values) for x in targets)), *resolve_transitions_for_error(transition, relevant_values))

                # Create transition to add
                culled_transition.on_values = list(relevant_values | irrelevant_values)
                culled_transition.attach(*chain_actions, prepend=True)
                culled_chained_transitions.append(culled_transition)

            for new_transition in culled_chained_transitions:
                sub_state.transition(new_transition, allow_replace_if=lambda x: x.error_handling or x.target in valid_replacers)

        # Adopt all the states
        for state in chained_dfa.states:
            if state not in self.states:
                self.add(state)

        # Finally, mark all the sub_states as no longer accept states, and mark the new accept states thus
        if mark_accept:
            sub_states = sub_states.copy()
            for sub_state in sub_states:
                if sub_state in self.accepting_states:
                    self.accepting_states.remove(sub_state)
            # Additionally, if the starting state was an accept state, mark all the sub states as accept states too
            if chained_dfa.starting_state in chained_dfa.accepting_states:
                for sub_state in sub_states:
                    self.mark_accepting(sub_state)

            for state in chained_dfa.accepting_states:
                self.mark_accepting(state)

    def chain_actions_into(self, actions: Iterable["Action"], target_states: Iterable[DFState]):
        """
        Attempt to chain the given actions on all transitions pointing into the passed states.

        If these actions cannot be scheduled once (if requested) an error will be thrown. Note the check for scheduling once
        is very weak; no dominance checking is performed -- if any non-error-handling transitions exist on a targeted state 
        the state is assumed to be reentrant.
        """

        actions = list(actions)
        strict_actions = timing_strict_actions(actions)

        for finish in target_states:
            for incoming, trans in self.transitions_pointing_to(finish, include_states=True):
                for action in actions:
                    if action in strict_actions and any(not x.error_handling for x in finish.transitions):
                        # Complain early
                        raise UnableToScheduleActionError([incoming], [action])
                    else:
                        trans.attach(action)

    def append_action_step(self, actions: Iterable["Action"], sub_states=None):
        """
        Give the actions a step of their own behind the `sub_states` (or if unspecified, the accept states): a fallthrough taken on whatever
        those states do not continue with themselves. Returns the state the machine is in once they have been performed.
        """

        step = DFA()
        entry, performed = DFState(), DFState()
        step.add(entry)
        step.add(performed)
        step.mark_accepting(performed)
        # (joined like an error path, so that it only takes what a state does not handle validly itself; once in place it is an ordinary step)
        entry.transition(DFTransition([DFTransition.Else], fallthrough=True).to(performed).attach(*actions).handles_else())
        sub_states = list(self.accepting_states if sub_states is None else sub_states)
        self.append_after(step, sub_states=sub_states)
        for sub_state in sub_states:
            for transition in sub_state.transitions:
                if transition.target is performed:
                    transition.handles_else(False)
        return performed

    def chain_actions_at_end(self, actions: Iterable["Action"]):
        actions = list(actions)
        # Nothing points at the starting state yet -- whatever comes before this machine will -- so the path that ends right where it
        # starts (a skipped optional) has no transition to put them on: they are performed when the next byte shows which path it was.
        # The target of an action -- the end of a loop that a break under an if leaves for -- is entered without taking a transition at all.
        jumped_to = set(target for transition in self.all_transitions() for action in transition.actions for sub in action.all_subactions() for target in sub.get_target_override_targets())
        entered_otherwise = [x for x in self.accepting_states if x is self.starting_state or x in jumped_to]
        self.chain_actions_into(actions, [x for x in self.accepting_states if x not in entered_otherwise])
        if actions and entered_otherwise:
            self.append_action_step(actions, entered_otherwise)

# =============
# DEBUG STORAGE
# =============

class DTAG(enum.Enum):
    NAME = 0
    SOURCE_LINE = 1
    SOURCE_COLUMN = 2

    PARENT = 3
    MACRO_INSTANCE = 4

    # Specific to actions
    STRICT_TIMING_REASON = 20

    # Used for tracking action skips
    ACTION_MAY_SKIP = 40
    ACTION_MAY_RETURN = 41

class ProgramFlag(int, enum.Enum):
    def __new__(cls, value, helpstr="", default=False, implies=(), exclusive_with=()):
        obj = int.__new__(cls, value)
        obj.default = default
        obj.helpstr = helpstr
        obj._value_ = value
        obj.implies = frozenset(implies)
        obj.exclusive_with = frozenset(exclusive_with)
        return obj

    # Verbosity options (enabled by various levels of -v or, ofc, -f)
    VERBOSE_REGEX_CCLASS = 200
    VERBOSE_OPTIMIZE_RESULTS = 201
    VERBOSE_SIMPLIFY_TM = 202
    VERBOSE_AMBIG_ERRORS = 203

    # Error reporting flags
    CODEPOINTS_IN_ERRORS = (400, "Report codepoints instead of characters in error messages", False, (101,))

    # Optimization flags, set in ProgramData
    # DFA optimization options (enabled by various levels of -O)
    SIMPLIFY_ELSE_CONDITIONS = 300
    REMOVE_INACCESIBLE_STATES = 301
    USE_DELETE_FOR_EMPTY_STRING = 302
    SHORTCIRCUIT_FALLTHROUGHS = 303

    # Codegen optimization options ('')
    COLLAPSE_TRANSITION_RANGES = (9, "Rewrite large transition values as codepoint range checks")

    # Codegen options 
    # |
    # - Structure options
    DYNAMIC_MEMORY = 7  # Allow use of dynamic memory
    INCLUDE_USER_PTR = (11, "Add a void* to the state structure, useful with hooks")
    STRICT_DONE_TOKEN_GENERATION = (15, "Only return DONE from _feed at accept states, not from transitions to accept states")
    EOF_SUPPORT = (16, "Generate a end function and support detecting eofs")
    INDIRECT_START_PTR = (17, "Use an indirect pointer for start to report where the input ends precisely")
    YIELD_SUPPORT = (30, "Support yield expressions; implies indirect start pointers", False, (17,))
    ZERO_LEN_INPUT_SUPPORT = (31, "Allow calling feed with start == end", False)
    # |
    # - String storage options
    ALLOCATE_STR_SPACE_IN_STRUCT = (5, "Allocate string space in struct", True, (), (6,))  # allocate the string space in the struct as an array, default
    ALLOCATE_STR_SPACE_DYNAMIC   = (6, "Allocate string space dynamically", False, (7,), (5,))  # implies DYNAMIC
    ALLOCATE_STR_SPACE_DYNAMIC_ON_DEMAND = (8, "Allocate string space on demand", False, (6,))  # implies DYNAMIC
    UNSAFE_STRING_INDEXING = (18, "Don't perform runtime bounds checks on string indexing")
    STRINGS_AS_U8 = (19, "Store strings as uint8_t[] arrays instead of char arrays")
    DELETE_STRING_FREE_MEMORY = (21, "delete-ing a string should also free() it", False, (), (5,))
    # |
    # - Hook options
    HOOK_GLOBAL = (12, "Place hooks as global functions", True)
    HOOK_PER_STATE = (13, "Place hooks as function pointers in the state structure", False, (), (12,))
    # |
    # - Template options
    USE_PRAGMA_ONCE = (10, "Use #pragma once instead of an #ifndef guard in the header")
    USE_CPLUSPLUS_GUARD = (14, "Include a __cplusplus extern C guard", True)
    USE_PACKED_ENUMS = (32, "Define all enumerations with __attribute__((packed))", False)

    # Debug options
    DEBUG_DFA_HIDE_ERROR_HANDLING = (100, "", True)
    DEBUG_DFA_BINARY_LABELS = (101, "Show all transition labels as hex points", False)
    DEBUG_STRICT_PROGRAM_DATA_ERRORS = (102, "Throw an error if the ProgramData tree is updated in an invalid way", False)
    DEBUG_DTREE_HIDE_GC = (103, "Don't show entries in dtree if they've been garbage collected", True)
    DEBUG_DTREE_AS_GRAPH = (104, "Dump the debug tag tree as a graphviz graph instead of to stdout", False)

class ProgramOption(enum.Enum):
    def __init__(self, default, helpstr):
        self.default = default
        self.helpstr = helpstr

    # DFA optimization options
    MAX_SHORTCIRCUIT_FALLTHROUGH = (20, "Maximum number of equivalent fallthrough transitions to inline")
    MAX_SHORTCIRCUIT_ACTION_PENALTY = (3, "How much actions affect the max shortcircuit falloff amount")

    # Codegen options
    COLLAPSED_RANGE_LENGTH = (4, "Minimum length of range to collapse into range comparison")

    # Debug options
    DEBUG_DFA_HIDE_THRESHOLD = (15, "")
    DEBUG_GRAPH_DUMP_FORMAT = ("pdf", "Output format for graphviz dumpers, use 'dot' to get raw dot file")

class HasDefaultDebugInfo:
    def debug_lookup(self, tag: DTAG): # pragma: no cover
        return None

class DebugDumpable(enum.Enum):
    AST = "ast"
    DFA = "dfa"
    TRACEBACK = "traceback"
    PARSE = "parse"
    DTREE = "dtree"

class ProgramData:
    _collection = defaultdict(dict)
    _children = defaultdict(list)
    _refmap = {}
    _current_source = []
    _flags = {
            x: x.default for x in ProgramFlag
    }

    _options = {
            x: x.default for x in ProgramOption
    }
    _dump = []

    dump_prefix = None
    dry_run = False

    _OPTIMIZE_LEVELS = {
        0: (),     # -O0 (nothing)
        1: (ProgramFlag.SIMPLIFY_ELSE_CONDITIONS, ProgramFlag.REMOVE_INACCESIBLE_STATES),       # -O1 (the default)
        2: (ProgramFlag.COLLAPSE_TRANSITION_RANGES, ProgramFlag.USE_DELETE_FOR_EMPTY_STRING),     #- O2 (adds to 1, 2)
        3: (ProgramFlag.SHORTCIRCUIT_FALLTHROUGHS,),
    }

    @classmethod
    def load_source(cls, src: str):
        """
        Load the currently processing source code
        """

        cls._current_source = src.splitlines(keepends=False)

    @classmethod
    def _ensure_refmapped(cls, obj: object):
        if id(obj) not in cls._refmap:
            cls._refmap[id(obj)] = weakref.ref(obj)
        else:
            if cls._refmap[id(obj)]() is not obj:
                cls._refmap[id(obj)] = weakref.ref(obj)
                cls._children[id(obj)] = []
                cls._collection[id(obj)] = {}

    @classmethod
    def imbue(cls, obj: object, tag: DTAG, value: object, *extra_tags):
        """
        Imbue this object with this debug information
        """

        cls._ensure_refmapped(obj)

        bad = False

        if tag == DTAG.PARENT:
            cls._ensure_refmapped(value)
            # Ensure this node is not trying to mark itself as a parent
            if obj is value:
                if cls.do(ProgramFlag.DEBUG_STRICT_PROGRAM_DATA_ERRORS):
                    raise NMFUError([obj], "Attempt to set object as its own parent")
                else:
                    bad = True
            else:
                par = cls.lookup(value, DTAG.PARENT)
                while par is not None:
                    if par is obj:
                        if cls.do(ProgramFlag.DEBUG_STRICT_PROGRAM_DATA_ERRORS):
                            raise NMFUError([obj, par, value], "Attempt to set object as its own parent")
                        else:
                            bad = True
                        break
                    par = cls.lookup(par, DTAG.PARENT)

            if not bad:
                cls._children[id(value.__repr__.__self__)].append(id(obj))

        if not bad:
            cls._collection[id(obj)][tag] = value
        if extra_tags:
            return cls.imbue(obj, *extra_tags)
        return obj

    @classmethod
    def lookup(cls, obj: object, tag: DTAG, recurse_upwards=True, default=None, recurse_downwards=True):
        """
        Find the imbued object's data, or -- if none exists -- find it's parents
        """

        if obj is None:
            return None

        if type(obj) is lark.Token:
            if tag == DTAG.SOURCE_LINE:
                return obj.line
            elif tag == DTAG.SOURCE_COLUMN:
                return obj.column
            else:
                return default

        if isinstance(obj, lark.Tree):
            if tag == DTAG.SOURCE_LINE:
                return obj.meta.line
            elif tag == DTAG.SOURCE_COLUMN:
                return obj.meta.column
            else:
                return default

        id_obj = id(obj) if type(obj) is not int else obj

        # Ensure consistency: what is stored under this id may belong to an object that no longer exists (ids are reused)
        if type(obj) is int and obj in cls._refmap and cls._refmap[obj]() is None:
            del cls._refmap[id_obj]
            cls._collection[id_obj] = {}
        elif type(obj) is not int and id_obj in cls._refmap and cls._refmap[id_obj]() is not obj:
            del cls._refmap[id_obj]
            cls._collection[id_obj] = {}
            cls._children[id_obj] = []

        if tag not in ProgramData._collection[id_obj]:
            if isinstance(obj, HasDefaultDebugInfo):
                val = obj.debug_lookup(tag)
                if val is not None:
                    return val
            elif isinstance(obj, int) and id_obj in cls._refmap:
                v_obj = cls._refmap[id_obj]()
                if isinstance(v_obj, HasDefaultDebugInfo):
                    val = v_obj.debug_lookup(tag)
                    if val is not None:
                        return val
            if DTAG.PARENT in ProgramData._collection[id_obj] and recurse_upwards:
                val = cls.lookup(ProgramData._collection[id_obj][DTAG.PARENT], tag)
                if val is not None:
                    return val
            if tag in (DTAG.SOURCE_COLUMN, DTAG.SOURCE_LINE) and recurse_downwards:
                for i in cls._children[id_obj]:
                    val = cls.lookup(i, tag, recurse_upwards=False)
                    if val is not None:
                        return val
            return default
        return ProgramData._collection[id_obj][tag]

    @classmethod
    def get_source_line(cls, line: int):
        line -= 1
        if line >= len(cls._current_source):
            return None
        else:
            return cls._current_source[line]
    
    @classmethod
    def _is_optimization_flag(cls, flag):
        for level in range(4):
            if flag in cls._OPTIMIZE_LEVELS[level]:
                return level
        return -1

    @classmethod
    def _print_version(cls): 
        print("nmfu", __version__)
        print("Copyright (C) 2020-2023 Matthew Mirvish")
        print("This is free software; see the source for copying conditions.  There is NO")
        print("warranty; not even for MERCHANTABILITY or FITNESS FOR A PARTICULAR PURPOSE.")

    @classmethod
    def _print_help(cls, show_all=False):
        print("Usage: nmfu [options] input")
        print("")
        print("Global Options:")
        print("  -o<arg>, --output <arg>                    Output name without extension")
        print("  -O<level>                                  Optimization level (default: 1)")
        print("  -f<flag>, -fno-<flag>, --flag <flag>=<arg> Enable or disable a flag")
        print("  -d<arg>,<arg>, --dump <arg>,<arg>          Dump <args> to pdfs or stdout. Possible values are: " + ", ".join(x.value for x in DebugDumpable))
        print("  --dump-prefix <arg>                        Write dumped pdfs to files starting with <arg> (default is program name)")
        print("  -t, --dry-run                              Only convert the input to a DFA (and possibly dump), don't generate code")
        print("  -h, --help                                 Show this help screen")
        print("  --help-all                                 Show this help screen; showing hidden debug options")
        print("  --version                                  Show the version of nmfu")
        print("")
        print("Generation Options:")
        
        def filter_options_for_all(options):
            for i in options:
                if show_all:
                    yield i
                else:
                    if i.name.startswith("VERBOSE") or i.name.startswith("DEBUG"):
                        continue
                    yield i

        pad_length = 4 + len(max(filter_options_for_all(ProgramOption), key=lambda x: len(x.name)).name) + 6
        for option in filter_options_for_all(ProgramOption):
            flag_name = option.name.replace("_", "-").lower()
            opt_str = f"  --{flag_name} <arg>"
            print(f"{opt_str: <{pad_length}} {option.helpstr} (default: {option.default})")
        print("")
        print("Flags:")
        pad_length = 2 + len(max((y for y in filter_options_for_all(ProgramFlag) if cls._is_optimization_flag(y) == -1), key=lambda x: len(x.name)).name)
        for flag in filter_options_for_all(ProgramFlag):
            if cls._is_optimization_flag(flag) >= 0:
                continue
            flag_name = flag.name.replace("_", "-").lower()
            opt_str = f"  {flag_name}"
            if flag.helpstr:
                print(f"{opt_str: <{pad_length}} {flag.helpstr} (default: {flag.default})")
            else:
                print(opt_str)
        print("")
        print("Optimization Flags:")
        pad_length = 2 + max(len(y.name) for y in ProgramFlag if cls._is_optimization_flag(y) >= 0)
        for flag in ProgramFlag:
            if cls._is_optimization_flag(flag) == -1:
                continue
            flag_name = flag.name.replace("_", "-").lower()
            opt_str = f"  {flag_name}"
            if flag.helpstr:
                print(f"{opt_str: <{pad_length}} {flag.helpstr} (enabled at level {cls._is_optimization_flag(flag)})")
            else:
                print(f"{opt_str: <{pad_length}} enabled at level {cls._is_optimization_flag(flag)}")

    @classmethod
    def _reset_flags(cls):
        cls._flags = {
                x: x.default for x in ProgramFlag
        }
        cls._options = {
                x: x.default for x in ProgramOption
        }
        cls._dump = []
        cls.dry_run = False
        cls.dump_prefix = None
        del cls._collection
        del cls._children
        del cls._refmap
        cls._collection = defaultdict(dict)
        cls._children = defaultdict(list)
        cls._refmap = {}

    @classmethod
    def load_commandline_flags(cls, all_cmd_options: List[str]):
        """
        Load the command line flags passed in. Returns a tuple of (input_filename, program_output_name)
        """

        cls._reset_flags()

        input_filename = None
        program_output_name = None

        optimize_level = 1
        flag_overrides = {}

        all_cmd_options_iter = iter(all_cmd_options)
        cls.dump_prefix = None

        for option in all_cmd_options_iter:
            if not option:
                raise RuntimeError("Empty argument")
            try:
                if option[0] != "-":
                    if input_filename is not None:
                        raise RuntimeError("Program filename specified multiple times")
                    input_filename = option
                    continue
                elif option[1] == "-":
                    option_name = option[2:]
                    if len(option_name) < 2:
                        raise RuntimeError("Unknown option " + option) # (the one-letter names are spelled with a single dash)
                    if option_name not in ["help", "dry-run", "version", "help-all"]:
                        option_value = next(all_cmd_options_iter)
                else:
                    option_name = option[1]
                    option_value = option[2:]
                    if option_name in ["t", "h"] and option_value:
                        raise RuntimeError("Invalid argument " + option) # these take no value
            except IndexError:
                raise RuntimeError("Invalid argument " + option)
            except StopIteration:
                raise RuntimeError("Missing value for argument " + option)

            if option_name in ["o", "output"]:
                if "." in option_value:
                    raise RuntimeError("Program output should not contain an extension")
                if not option_value:
                    raise RuntimeError("Missing value for argument " + option)
                if not (option_value.isascii() and option_value.replace("_", "a").isalnum() and not option_value[0].isdigit()):
                    # (it names the two files and prefixes every declaration in them)
                    raise RuntimeError("Program output name must be usable as a C identifier")
                program_output_name = option_value
            elif option_name == "O":
                try:
                    if not (option_value.isascii() and option_value.isdigit()): # int() also takes signs, blanks, underscores, other scripts' digits
                        raise ValueError(option_value)
                    optimize_level = int(option_value)
                except ValueError as e:
                    raise RuntimeError("Invalid optimization level " + option_value) from e
                if optimize_level not in cls._OPTIMIZE_LEVELS:
                    raise RuntimeError("Unknown optimization level " + option_value)
            elif option_name in ["f", "flag"]:
                if option_name == "f":
                    set_to = True
                    if option_value.startswith("no-"):
                        set_to = False
                        option_value = option_value[3:]
                    flag_name = option_value.upper().replace("-", "_")
                else:
                    if "=" not in option_value:
                        set_to = True
                        flag_name = option_value
                    else:
                        flag_name, set_to = option_value.split("=", 1)
                        if set_to not in ["yes", "on", "no", "off"]:
                            raise RuntimeError("Invalid value for flag " + flag_name + " (expected yes/on or no/off)")
                        set_to = set_to in ["yes", "on"]
                    option_value = flag_name
                    flag_name = flag_name.upper().replace("-", "_")
                if not option_value.isascii() or flag_name not in ProgramFlag.__members__:  # (upper() folds some non-ASCII letters onto ASCII ones)
                    raise RuntimeError("Unknown flag " + option_value)
                flag_overrides[ProgramFlag[flag_name]] = set_to
            elif option_name in ["h", "help"]:
                cls._print_help()
                exit(0)
            elif option_name == "help-all":
                cls._print_help(show_all=True)
                exit(0)
            elif option_name == "version":
                cls._print_version()
                exit(0)
            elif option_name in ["d", "dump"]:
                for i in option_value.split(","):
                    try:
                        cls._dump.append(DebugDumpable(i))
                    except ValueError as e:
                        raise RuntimeError("Unknown dump target " + i) from e
            elif option_name == "dump-prefix":
                cls.dump_prefix = option_value
            elif option_name in ["t", "dry-run"]:
                cls.dry_run = True
            else:
                p_option_name = option_name.upper().replace("-", "_")
                if not option_name.isascii() or p_option_name not in ProgramOption.__members__:
                    raise RuntimeError("Unknown option " + option_name)
                try:
                    if type(ProgramOption[p_option_name].default) is int and not (option_value.isascii() and option_value.isdigit()):
                        raise ValueError(option_value)
                    cls._options[ProgramOption[p_option_name]] = type(ProgramOption[p_option_name].default)(option_value)
                except ValueError as e:
                    raise RuntimeError("Invalid value for option " + option_name) from e

        if input_filename is None:
            raise RuntimeError("No input file provided!")

        if program_output_name is None:
            # No explicit output name: derive one from the input filename, wherever it was given
            program_output_name = os.path.splitext(os.path.basename(input_filename))[0]
            program_output_name = "".join(x if (
                x in string.ascii_letters or x == '_' or (i > 0 and x in string.digits)
            ) else '_' for i, x in enumerate(program_output_name))

        for j in range(optimize_level + 1):
            for i in cls._OPTIMIZE_LEVELS[j]:
                cls._flags[i] = True

        for k, v in flag_overrides.items():
            cls._flags[k] = v

        # Set implies
        while True:
            did_something = False
            for k, v in cls._flags.items():
                if v:
                    for x in k.implies:
                        if not cls._flags[x]:
                            did_something = True
                        cls._flags[x] = True
            if not did_something:
                break

        # Fix exclusives for only the user specified values
        def aux(flag):
            for conflict in flag.exclusive_with:
                conflict = ProgramFlag(conflict)
                if conflict in flag_overrides and flag_overrides[conflict]:
                    raise RuntimeError("Conflict between " + conflict.name + " and " + flag.name)
                elif cls._flags[conflict]:
                    # ensure it's set to false, and go through _its_ conflicts
                    cls._flags[conflict] = False
            # also investigate the things it implies as if they were specified
            for implies in flag.implies:
                implies = ProgramFlag(implies)
                aux(implies)

        for flag in flag_overrides.keys():
            if cls._flags[flag]:
                aux(flag)

        if cls.dump_prefix is None:
            cls.dump_prefix = program_output_name
        
        return (input_filename, program_output_name)

    @classmethod
    def do(self, flag):
        return self._flags[flag]

    @classmethod
    def option(self, opt):
        return self._options[opt]

    @classmethod
    def dump(self, dumpable):
        return dumpable in self._dump

class IndexableInstance(type):
    def __init__(self, name, bases, dct):
        self._ii_cache = {}

    def __getitem__(cls, obj):
        if obj in cls._ii_cache:
            return cls._ii_cache[obj]
        else:
            cls._ii_cache[obj] = cls(obj) # pylint: disable=no-value-for-parameter,no-value-for-parameter
            return cls._ii_cache[obj]

class dprint(metaclass=IndexableInstance):
    def __init__(self, condition):
        self.condition = condition

    def __call__(self, *args, **kwargs):
        if ProgramData.do(self.condition): # pragma: no cover
            print(*args, **kwargs)


# ===========
# ERROR TYPES
# ===========

class NMFUError(Exception):
    def __init__(self, reasons, message=None):
        self.reasons = reasons
        self.message = message

    @classmethod
    def _generate_whitespace_marker(cls, line, column):
        marker = ""
        source_line = ProgramData.get_source_line(line) or "" # (line and column need not come from the same object: stay inside the line)
        for i in range(column):
            if i == column - 1:
                marker += "^"
            elif i < len(source_line) and source_line[i] == "\t":
                marker += "\t"
            else:
                marker += " "
        return marker

    def _get_message(self, show_potential_reasons=True, reasons_header="Potential reasons include:", subset=None, additional_info=None):
        if subset is None:
            subset = self.reasons
        if additional_info is None:
            additional_info = lambda reason: None 
        info_strs = []
        for reason in subset:
            name, line, column = (ProgramData.lookup(reason, tag) for tag in (DTAG.NAME, DTAG.SOURCE_LINE, DTAG.SOURCE_COLUMN))
            info_str = ""
            if name:
                info_str += f"- {name}:"
                if line is not None:
                    info_str += f"\n  at line {line}:\n{ProgramData.get_source_line(line)}"
                    if column is not None:
                        info_str += "\n" + NMFUError._generate_whitespace_marker(line, column)
                else:
                    info_str = info_str[:-1]
            else:
                if line is not None:
                    info_str += f"- line {line}:\n{ProgramData.get_source_line(line)}"
                    if column is not None:
                        info_str += "\n" + NMFUError._generate_whitespace_marker(line, column)
                else:
                    continue
            macro_inst = ProgramData.lookup(reason, DTAG.MACRO_INSTANCE)
            while macro_inst is not None:
                info_str += f"\n  - expanded from {macro_inst.macro.name}"
                line, column = (ProgramData.lookup(macro_inst, tag) for tag in (DTAG.SOURCE_LINE, DTAG.SOURCE_COLUMN))
                if line is not None:
                    info_str += f" at line {line}:\n{ProgramData.get_source_line(line)}"
                    if column is not None:
                        info_str += "\n" + NMFUError._generate_whitespace_marker(line, column)
                macro_inst = macro_inst.parent
            if additional_info(reason):
                info_str += "\n  {}".format(additional_info(reason))
            info_strs.append(info_str)

        if info_strs:
            return (f"{reasons_header}\n" if show_potential_reasons else "") + "\n".join(info_strs)
        else:
            return ""

    def __str__(self):
        if self.message:
            return self.message + " " + self._get_message()
        return self._get_message()

def diagnoses_recursion_limit(function):
    """
    The front end and the converters recurse over the program (once per statement of a sequence, once per nested block, once per
    macro expansion). Turn hitting the interpreter's recursion limit into a diagnosed error.
    """

    def wrapper(*args, **kwargs):
        try:
            return function(*args, **kwargs)
        except RecursionError:
            raise NMFUError([], "The program is nested too deeply (or a statement sequence is too long) for the compiler: recursion limit reached") from None
    wrapper.__name__ = function.__name__
    wrapper.__doc__ = function.__doc__
    return wrapper

class IllegalASTStateError(NMFUError):
    def __init__(self, msg, *source):
        super().__init__([*source])
        self.source = source
        self.msg = msg

    def __str__(self):
        return self.msg + "\n" + self._get_message(reasons_header="Due to:")

class IllegalDFAStateError(IllegalASTStateError):
    pass

class IllegalParseTree(IllegalASTStateError):
    pass

class IllegalIntExpr(IllegalASTStateError):
    pass

class IllegalDFAStateConflictsError(NMFUError):
    """
    Specifically for conflicts as opposed to an invalid state detected on a single thing
    """

    def __init__(self, msg, *source):
        super().__init__(source)
        self.source = source
        self.msg = msg

    def __str__(self):
        return self.msg + "\n" + self._get_message(reasons_header="Due to:")

class UnableToScheduleActionError(NMFUError):
    def __init__(self, states, actions):
        self.states = list(states)
        self.actions = list(actions)
        super().__init__([*self.states, *self.actions])
    
    def __str__(self):
        def add_info(act):
            rsn = ProgramData.lookup(act, DTAG.STRICT_TIMING_REASON)
            if rsn:
                return f"(strict timing because {rsn})"
            return None
        return f"Unable to schedule finish actions only once on\n{self._get_message(show_potential_reasons=False, subset=self.states)}\nfor\n{self._get_message(show_potential_reasons=False, subset=self.actions, additional_info=add_info)}"

class UndefinedReferenceError(NMFUError):
    def __init__(self, objtype, source: lark.Token):
        super().__init__([source])
        self.objtype = objtype
        self.source = source

    def __str__(self):
        if self.objtype is None:
            return f"Undefined reference to {self.source.value}:\n" + self._get_message(show_potential_reasons=False)
        return f"Undefined reference to {self.objtype} {self.source.value}:\n" + self._get_message(show_potential_reasons=False)

class DuplicateDefinitionError(NMFUError):
    def __init__(self, objtype, source, name):
        super().__init__([source])
        self.objtype = objtype
        self.source = source
        self.name = name

    def __str__(self):
        return f"Duplicate definition of {self.objtype} {self.name}:\n" + self._get_message(show_potential_reasons=False)


# =========
# AST TYPES
# =========

class ActionMode(enum.Enum):
    EACH_CHARACTER = 0 # Run this action for each character read as part of this match
    AT_FINISH = 1      # Run this action at the end of the current match (if possible, as the last transition into the accept state, otherwise at transition to next instruction)
    AT_START = 2       # Run this action at the start of the current match, regardless of whether or not it actually passes.

class ActionOverrideMode(enum.Enum):
    NONE = 0 # action does not override next state
    MAY_GOTO_TARGET = 4 # action may goto a different state
    MAY_GOTO_UNDEFINED = 3 # action may goto an undefined state (like the finish action)
    ALWAYS_GOTO_OTHER = 2 # action will always go to a defined state
    ALWAYS_GOTO_UNDEFINED = 1 # action will always go to an undefined state (usually something like the global "PREMATURE_EXIT" state or whatever)

class ErrorReasons(enum.Enum):
    NO_MATCH = "nomatch"
    OUT_OF_SPACE = "outofspace"

# =======
# ACTIONS
# =======

class Action:
    """
    Represents a high-level action to take either upon:
        - matching a character
        - matching an entire AST node

    This same class is used both for transition actions
    and for match actions. The timing/mode information is used to determine where to apply this
    action.
    """

    def get_mode(self) -> ActionMode:
        return ActionMode.EACH_CHARACTER

    def is_timing_strict(self):
        """
        Should we error out with an "ambiguous timing of finish action" if the action is unable to be scheduled with a valid $last
        """
        return False

    def get_target_override_mode(self) -> ActionOverrideMode:
        return ActionOverrideMode.NONE

    def get_target_override_targets(self) -> List[DFState]:
        return []

    def modifies(self) -> List["OutputStorage"]:
        """
        Return which outputs are modified by executing this action
        """

        return []

    def reads(self) -> List["OutputStorage"]:
        """
        Return which outputs this action looks at (directly or through an embedded action)
        """

        return []

    def embeddable(self):
        """
        Returns false if this action should not be wrapped in another action, like ConditionalAction
        """

        return True

    def embeds(self) -> List["Action"]:
        """
        Returns list of child embedded actions
        """

        return []

    def all_subactions(self):
        children = [self]
        for i in self.embeds():
            children.extend(i.all_subactions())
        return children

    def may_return_early(self):
        """
        Will this action return from _feed but still expect the state to be valid.
        """

        return False

def timing_strict_actions(actions: Iterable[Action]) -> List[Action]:
    """
    Which of these actions -- executed in this order, as one group -- cannot be executed a second time?

    Those that say so themselves, and those which read an output that they or a later action of the group modify: when the
    group is repeated they would see the modified value instead of the one they saw the first time.
    """

    actions = list(actions)
    strict = []
    for i, action in enumerate(actions):
        if action.is_timing_strict():
            strict.append(action)
            continue
        modified_later = [out for later in actions[i:] for sub in later.all_subactions() for out in sub.modifies()]
        if any(out in modified_later for out in action.reads()):
            ProgramData.imbue(action, DTAG.STRICT_TIMING_REASON, "a following action changes a value this one depends on")
            strict.append(action)
    return strict

class ConditionalAction(Action, HasDefaultDebugInfo):
    """
    Implements an entire if-else node chain
    """

    def __init__(self, conditions: List["DFCondition"], actions: Dict["DFCondition", List[Action]]):
        self.conditions = conditions
        self.sub_actions = actions

        for cond, acts in actions.items():
            ProgramData.imbue(cond, DTAG.PARENT, self)
            for act in acts:
                ProgramData.imbue(act, DTAG.PARENT, cond)

    def debug_lookup(self, tag):
        if tag == DTAG.NAME:
            return "if action"

    def get_mode(self):
        mode = None
        for act in itertools.chain(*self.sub_actions.values()):
            if mode is None:
                mode = act.get_mode()
            elif mode != act.get_mode():
                raise IllegalASTStateError("Action-only conditional node must be of only one type", act)
        return mode

    def is_timing_strict(self):
        # If the contained action could change something with the condition, this must be true
        for cond in self.conditions:
            if isinstance(cond, IntegerCondition):
                for act in self.sub_actions[cond]:
                    for potential in act.modifies():
                        for child in cond.expr.all_children():
                            if potential in child.accesses():
                                ProgramData.imbue(self, DTAG.STRICT_TIMING_REASON, f"expression could change containing conditional's outcome")
                                return True
        return any(x.is_timing_strict() for x in itertools.chain(*self.sub_actions.values()))

    def may_return_early(self):
        return any(x.may_return_early() for x in self.embeds())

    def reads(self):
        result = []
        for cond in self.conditions:
            if isinstance(cond, IntegerCondition):
                result.extend(cond.expr.accesses())
        for act in self.embeds():
            result.extend(act.reads())
        return result

    def get_target_override_targets(self):
        tgts = set()

        for act in itertools.chain(*self.sub_actions.values()):
            tgts.update(act.get_target_override_targets())

        return list(tgts)

    def embeds(self):
        return list(itertools.chain(*self.sub_actions.values()))

    def get_target_override_mode(self):
        mode = ActionOverrideMode.NONE
        for act in itertools.chain(*self.sub_actions.values()):
            submode = act.get_target_override_mode()

            if submode == ActionOverrideMode.ALWAYS_GOTO_UNDEFINED:
                submode = ActionOverrideMode.MAY_GOTO_UNDEFINED
            elif submode == ActionOverrideMode.ALWAYS_GOTO_OTHER:
                submode = ActionOverrideMode.MAY_GOTO_TARGET

            if submode.value > mode.value:
                mode = submode

        return mode

class FinishAction(Action, HasDefaultDebugInfo):
    def get_mode(self):
        return ActionMode.AT_FINISH

    def is_timing_strict(self):
        return True

    def get_target_override_mode(self):
        return ActionOverrideMode.ALWAYS_GOTO_UNDEFINED

    def debug_lookup(self, tag: DTAG):
        if tag == DTAG.NAME:
            return "exit action"

class CustomFinishAction(FinishAction):
    def __init__(self, result_code: str):
        super().__init__()
        self.result_code = result_code

    def debug_lookup(self, tag: DTAG):
        if tag == DTAG.NAME:
            return "exit action code {}".format(self.result_code)

class CustomYieldAction(Action, HasDefaultDebugInfo):
    def __init__(self, result_code: str):
        self.result_code = result_code

    def get_mode(self):
        return ActionMode.AT_FINISH

    def is_timing_strict(self):
        return True

    def debug_lookup(self, tag: DTAG):
        if tag == DTAG.NAME:
            return "yield action code {}".format(self.result_code)

    def may_return_early(self):
        return True

class CallHook(Action, HasDefaultDebugInfo):
    def __init__(self, name):
        self.name = name

    def get_mode(self):
        return ActionMode.AT_FINISH

    def is_timing_strict(self):
        return True

    def debug_lookup(self, tag: DTAG):
        if tag == DTAG.NAME:
            return f"call to hook {self.name}"

class BreakAction(Action, HasDefaultDebugInfo):
    def __init__(self, refers_to):
        self.refers_to: "LoopNode" = refers_to

    def get_mode(self):
        return ActionMode.AT_FINISH

    def is_timing_strict(self):
        return True

    def get_target_override_targets(self):
        # one of the actions performed on the way out may itself leave for somewhere else (the break of an enclosing loop)
        return [self.refers_to.end_state, *(tgt for act in self.embeds() for tgt in act.get_target_override_targets())]

    def embeds(self):
        return self.refers_to.after_break_actions

    def get_target_override_mode(self):
        return ActionOverrideMode.ALWAYS_GOTO_OTHER

    def debug_lookup(self, tag: DTAG):
        if tag == DTAG.NAME:
            return "break action for {}".format(ProgramData.lookup(self.refers_to, DTAG.NAME))

    def replacement_actions(self):
        return self.refers_to.after_break_actions

    def __eq__(self, o):
        if not isinstance(o, BreakAction):
            return NotImplemented
        return o.refers_to == self.refers_to

class AppendTo(Action, HasDefaultDebugInfo):
    def __init__(self, end_target, into_storage: "OutputStorage"):
        self.end_target = end_target
        self.into_storage = into_storage

    def get_target_override_mode(self):
        return ActionOverrideMode.MAY_GOTO_TARGET

    def is_timing_strict(self):
        return True

    def get_target_override_targets(self):
        return [self.end_target]

    def debug_lookup(self, tag: DTAG):
        if tag == DTAG.NAME:
            return "append action ({})".format(ProgramData.lookup(self.into_storage, DTAG.NAME))

    def modifies(self):
        return [self.into_storage]

class AppendCharTo(Action, HasDefaultDebugInfo):
    def __init__(self, end_target, append_value: "IntegerExpr", into_storage: "OutputStorage"):
        self.end_target = end_target
        self.append_value = append_value
        self.into_storage = into_storage

    def get_mode(self):
        return ActionMode.AT_FINISH

    def get_target_override_mode(self):
        return ActionOverrideMode.MAY_GOTO_TARGET

    def get_target_override_targets(self):
        return [self.end_target]

    def is_timing_strict(self):
        return True

    def debug_lookup(self, tag: DTAG):
        if tag == DTAG.NAME:
            return "append character action ({})".format(ProgramData.lookup(self.into_storage, DTAG.NAME))

    def modifies(self):
        return [self.into_storage]

class SetTo(Action, HasDefaultDebugInfo):
    def __init__(self, value_expr: "IntegerExpr", into_storage: "OutputStorage"):
        self.into_storage = into_storage
        self.value_expr = value_expr
        ProgramData.imbue(value_expr, DTAG.PARENT, self)

    def get_mode(self):
        return ActionMode.AT_FINISH

    def is_timing_strict(self):
        return any(self.into_storage in x.accesses() for x in self.value_expr.all_children())

    def reads(self):
        return self.value_expr.accesses()

    def debug_lookup(self, tag: DTAG):
        if tag == DTAG.NAME:
            if self.value_expr.is_literal():
                try:
                    return "set into {} {}".format(ProgramData.lookup(self.into_storage, DTAG.NAME), self.value_expr.get_literal_result())
                except (ArithmeticError, ValueError):
                    pass # no value to show (e.g. division by zero)
            return "set into {}".format(ProgramData.lookup(self.into_storage, DTAG.NAME))
        elif tag == DTAG.STRICT_TIMING_REASON:
            if not self.is_timing_strict():
                return None
            return "expression depends on previous stored value"

    def modifies(self):
        return [self.into_storage]

class SetToStr(Action, HasDefaultDebugInfo):
    def __init__(self, value_expr: str, into_storage: "OutputStorage"):
        self.into_storage = into_storage
        if into_storage.type != OutputStorageType.STR:
            raise IllegalASTStateError("SetToStr used without a string", self)
        self.value_expr = value_expr

    def get_mode(self):
        return ActionMode.AT_FINISH

    def debug_lookup(self, tag: DTAG):
        if tag == DTAG.NAME:
            return "set into {} {!r}".format(ProgramData.lookup(self.into_storage, DTAG.NAME), self.value_expr)

    def modifies(self):
        return [self.into_storage]

class DeleteBuf(Action, HasDefaultDebugInfo):
    def __init__(self, into_storage: "OutputStorage"):
        self.into_storage = into_storage
        if not into_storage.holds_buflike():
            raise IllegalASTStateError("DeleteBuf used without a buflike", self)

    def get_mode(self):
        return ActionMode.AT_FINISH

    def debug_lookup(self, tag: DTAG):
        if tag == DTAG.NAME:
            return "clear {}".format(ProgramData.lookup(self.into_storage, DTAG.NAME))

    def modifies(self):
        return [self.into_storage]



class Node(abc.ABC):
    """
    Represents an arbitrary AST node:
    - contains a pointer to the next node
    - processed bottom up
    - convertable to a full DFA
    """

    @abc.abstractmethod
    def set_next(self, next_node: "Node"):  # pragma: no cover
        """
        Set the next node that follows this node.
        _MUST_ be called before convert _UNLESS_ there is no next node
        """

        pass

    @abc.abstractmethod
    def get_next(self) -> "Node":  # pragma: no cover
        """
        Get the next node
        """
        pass

    @abc.abstractmethod
    def convert(self, current_error_handlers: dict) -> DFA:
        return None

class ActionSourceNode:
    def adopt_actions_from(self) -> Tuple[List[Action], Node]:  # pragma: no cover
        """
        Adopt the actions from this node, returning the actions that should be adopted and
        the new node which should be used instead of this node. If adopting is _not_ destructive,
        this should just return self
        """

        return [], self

class ActionNode(Node, ActionSourceNode):
    """
    An ephemeral node which represents a single node. There is guaranteed to only be one of these at any time and
    only as the topmost node in a stack
    """

    def __init__(self, *actions):
        self.actions = list(actions)
        for act in self.actions:
            ProgramData.imbue(act, DTAG.PARENT, self)
        self.next = None

    def set_next(self, next_node):
        if isinstance(next_node, ActionSourceNode):
            # adopt this node
            new_actions, self.next = next_node.adopt_actions_from()
            self.actions.extend(new_actions)
        else:
            # just set next
            self.next = next_node

    def get_next(self):
        return self.next

    def convert(self, *args):
        raise IllegalASTStateError("Action not inherited by a match left in AST", self)

    def adopt_actions_from(self):
        actions = self.actions
        return actions, self.next

class ActionSinkNode(Node):
    """
    Represents a node that can accept/adopt ActionNodes into itself, distributing them to appropriate
    Match objects (or deferring that process to sometime before conversion and hiding the ActionNodes from the sequence
    """

    @abc.abstractmethod
    def _set_next(self, actual_next_node: Node):  # pragma: no cover
        """
        Called by our set_next when the next node is not an action type
        """
        pass

    @abc.abstractmethod
    def _adopt_actions(self, actions: List[Action]):  # pragma: no cover
        pass

    def set_next(self, next_node):
        if isinstance(next_node, ActionSourceNode):
            actions, new_next = next_node.adopt_actions_from()
            self._adopt_actions(actions)
            self._set_next(new_next)
        else:
            self._set_next(next_node)

class InterruptableActionNode(ActionSinkNode):
    """
    Like an action node, but all actions after the first are "deferred" via a fallthrough else transition such that the first action
    can interrupt the main parser without causing subsequent actions to be missed.
    """

    def __init__(self, important_action: Optional[Action]):
        self.important_action = important_action  # if null, this is valid to construct
        self.following_actions = []
        self.next = None

    def _as_cleaned(self):
        newobj = InterruptableActionNode(None)
        newobj.following_actions = self.following_actions[:]
        newobj.next = self.next
        return newobj

    def get_next(self):
        return self.next

    def _set_next(self, actual_next_node):
        self.next = actual_next_node

    def _adopt_actions(self, act):
        self.following_actions.extend(act)

    def convert(self, current_error_handlers: dict):
        #if self.important_action is not None:
        #    raise IllegalASTStateError("Action not inherited by node in AST", self.important_action)

        dfa = DFA()
        start_node = DFProxyState()
        interrupt_node = DFProxyState()
        dfa.add(start_node)
        start_node[DFTransition.Else] = interrupt_node
        start_node[DFTransition.Else].fallthrough().attach(self.important_action)
        dfa.add(interrupt_node)
        trans = DFTransition(on_values=[DFTransition.Else]).fallthrough().attach(*self.following_actions)

        if self.next is None:
            fake_final = DFState()
            dfa.add(fake_final)
            dfa.mark_accepting(fake_final)
            trans.handles_else().to(fake_final)
            start_node[DFTransition.Else].handles_else()
        else:
            after = self.next.convert(current_error_handlers)
            for state in after.states:
                dfa.add(state)
                if state in after.accepting_states:
                    dfa.mark_accepting(state)
            trans.to(after.starting_state)
        interrupt_node.transition(trans)

        return dfa

class Match(abc.ABC):
    """
    Represents an arbitrary AST node which matches part(s) of the input.
    Directly corresponds to string literal and regex matches.

    - convertable to a normal, accept/nonaccept DFA with else clauses pointing to the appropriate states.
    """

    def __init__(self):
        self.start_actions = []
        self.finish_actions = []
        self.char_actions = []

    @abc.abstractmethod
    def convert(self, current_error_handlers: dict) -> DFA:  # pragma: no cover
        return None

    def attach(self, action: Action):
        if action.get_mode() == ActionMode.AT_FINISH:
            self.finish_actions.append(action)
        elif action.get_mode() == ActionMode.EACH_CHARACTER:
            ProgramData.imbue(action, DTAG.PARENT, self)
            self.char_actions.append(action)
        else:
            self.start_actions.append(action)

class DirectMatch(Match, HasDefaultDebugInfo):
    """A direct string match"""
    def __init__(self, match_contents):
        super().__init__()
        self.match_contents = match_contents

    def debug_lookup(self, tag: DTAG):
        if tag == DTAG.NAME:
            return f"direct match {self.match_contents!r}"

    def convert(self, current_error_handlers: dict):
        sm = DFA() # Create a new SM
        ProgramData.imbue(sm, DTAG.PARENT, self) # Mark us as the parent of this SM
        state = DFState()
        sm.add(state)
        """
        Create a DFA which looks like

          i    i      i
           1    2      n
        1 -> 2 -> ... -> n

        where i is the input string
        """
        for j, character in enumerate(self.match_contents):
            next_state = DFState()
            start_action_holder = (self.start_actions if j == 0 else [])
            t = DFTransition([character]).attach(*start_action_holder, *self.char_actions).to(next_state)
            ProgramData.imbue(state, DTAG.NAME, f"direct match {self.match_contents!r}[{j}]")
            state[DFTransition.Else] = DFTransition().to(current_error_handlers[ErrorReasons.NO_MATCH]).attach(*start_action_holder).fallthrough().handles_else()
            if j == len(self.match_contents) - 1:
                t.attach(*self.finish_actions)
                sm.mark_accepting(next_state)
                ProgramData.imbue(next_state, DTAG.NAME, f"direct match {self.match_contents!r}[{j}]")
            state.transition(t)
            sm.add(next_state)
            state = next_state
        return sm

class CaseDirectMatch(Match, HasDefaultDebugInfo):
    """A direct string match w/ case insensitivity"""
    def __init__(self, match_contents):
        super().__init__()
        self.match_contents = match_contents

    def debug_lookup(self, tag: DTAG):
        if tag == DTAG.NAME:
            return f"casei match {self.match_contents!r}"

    def _create_casei_from(self, character: str):
        # TODO: UNICODE handling
        if character in string.ascii_letters:
            return [character, string.ascii_letters[(string.ascii_letters.index(character) + 26) % len(string.ascii_letters)]]
        else:
            return [character]

    def convert(self, current_error_handlers: dict):
        sm = DFA() # Create a new SM
        ProgramData.imbue(sm, DTAG.PARENT, self) # Mark us as the parent of this SM
        state = DFState()
        sm.add(state)
        """
        Create a DFA which looks like

          i    i      i
           1    2      n
        1 -> 2 -> ... -> n

        where i is the input string
        """
        for j, character in enumerate(self.match_contents):
            next_state = DFState()
            start_action_holder = (self.start_actions if j == 0 else [])
            t = DFTransition(self._create_casei_from(character)).attach(*start_action_holder, *self.char_actions).to(next_state)
            ProgramData.imbue(state, DTAG.NAME, f"casei match {self.match_contents!r}[{j}]")
            state[DFTransition.Else] = DFTransition().to(current_error_handlers[ErrorReasons.NO_MATCH]).attach(*start_action_holder).fallthrough().handles_else()
            if j == len(self.match_contents) - 1:
                t.attach(*self.finish_actions)
                sm.mark_accepting(next_state)
                ProgramData.imbue(next_state, DTAG.NAME, f"casei match {self.match_contents!r}[{j}]")
            state.transition(t)
            sm.add(next_state)
            state = next_state
        return sm

class OutputStorageType(enum.Enum):
    BOOL = 0
    INT = 1
    ENUM = 2
    STR = 3
    RAW = 4

class OutputStorage(HasDefaultDebugInfo):
    def __init__(self, typ: OutputStorageType, name, default_value=None, enum_values: List[str] = [], str_size=0, str_null=True, int_signed=True, int_width=None, raw_underlying=""):
        self.type = typ
        self.name = name
        self.default_value = default_value
        self.enum_values = enum_values
        self.str_size = str_size
        self.str_null = str_null
        self.int_signed = int_signed
        self.int_width = int_width
        self.raw_underlying = raw_underlying

    def holds_a(self, typ):
        return self.type == typ

    def holds_buflike(self):
        return self.type in [OutputStorageType.STR, OutputStorageType.RAW]

    def debug_lookup(self, tag):
        if tag == DTAG.NAME:
            return f"output '{self.name}'"

    def __repr__(self):
        return f"<OutputStorage name={self.name} type={self.type}>"

    def effective_string_size(self):
        if self.str_null:
            return self.str_size - 1
        return self.str_size

# ==================
# INTEGER EXPR TYPES
# ==================

class IntegerExprUseContext(enum.Enum):
    ASSIGN_ON_MATCH = 0
    ASSIGN_INITIAL = 1
    ASSIGN_ON_END = 2
    CONDITION_PREDICATE = 3
    CONDITION_PREDICATE_END = 4
    CONDITION_PREDICATE_ACTION = 5
    CONDITION_PREDICATE_ACTION_END = 6

class IntegerExpr(abc.ABC):
    @abc.abstractmethod
    def result_type(self) -> OutputStorageType:  # pragma: no cover
        """
        Get the result type of this expression (integer expression technically corresponds to 
        bool/int/enum
        """
        pass

    def is_literal(self):
        """
        Is this expr evaluatable right now?
        """
        return False

    def get_literal_result(self):  # pragma: no cover
        """
        Evaluate to a native python representation
        """
        return None

    def get_invalid_contexts(self):
        """
        Return an iterable of all the contexts in which this expression is invalid
        """
        return []

    def get_child_expressions(self):
        """
        Return an interable of all the children expressions contained within this expression
        """
        return []

    def all_children(self):
        """
        Recursively find child expressions
        """

        children = [self]
        for i in self.get_child_expressions():
            children.extend(i.all_children())
        return children

    def accesses(self) -> List["OutputStorage"]:
        """
        Return which outputs this expression accesses
        """

        return []

class LiteralIntegerExpr(IntegerExpr):
    def __init__(self, value, typ: OutputStorageType = OutputStorageType.INT, model_ref: OutputStorage=None):
        self.value = value
        self.typ = typ
        self.model_ref = model_ref

    def result_type(self):
        return self.typ

    def is_literal(self):
        return True

    def get_literal_result(self):
        return self.value

    def __eq__(self, other):
        if not isinstance(other, LiteralIntegerExpr): return False
        return self.value == other.value and self.typ == other.typ

class OutIntegerExpr(IntegerExpr):
    def __init__(self, ref: "OutputStorage"):
        self.ref = ref

    def result_type(self):
        return self.ref.type

    def __eq__(self, other):
        if not isinstance(other, OutIntegerExpr): return False
        return other.ref == self.ref

    def accesses(self):
        return [self.ref]

class StringRefIntegerExpr(IntegerExpr):
    def __init__(self, ref: "OutputStorage", index: IntegerExpr):
        if not ref.holds_buflike():
            raise IllegalParseTree("Index expression must be indexing a string", self)

        if not index.result_type() == OutputStorageType.INT:
            raise IllegalParseTree("Index expression must be an integer", index)

        ProgramData.imbue(index, DTAG.PARENT, self)

        self.ref = ref
        self.index = index

    def result_type(self):
        return OutputStorageType.INT

    def __eq__(self, other):
        if not isinstance(other, StringRefIntegerExpr): return False
        return self.ref == other.ref and self.index == other.index

    def accesses(self):
        return [self.ref, *self.index.accesses()]

    def get_child_expressions(self):
        return [self.index]

class StringLengthIntegerExpr(IntegerExpr):
    def __init__(self, ref: "OutputStorage"):
        if not ref.holds_buflike():
            raise IllegalParseTree("Index expression must be indexing a buffer-like object", self)

        self.ref = ref

    def __eq__(self, other):
        if not isinstance(other, StringLengthIntegerExpr): return False
        return self.ref == other.ref

    def accesses(self):
        return [self.ref]

    def result_type(self):
        return OutputStorageType.INT

class LastCharIntegerExpr(IntegerExpr):
    def result_type(self):
        return OutputStorageType.INT

    def get_invalid_contexts(self):
        return [IntegerExprUseContext.ASSIGN_INITIAL, IntegerExprUseContext.ASSIGN_ON_END, IntegerExprUseContext.CONDITION_PREDICATE_END, IntegerExprUseContext.CONDITION_PREDICATE, IntegerExprUseContext.CONDITION_PREDICATE_ACTION_END]

    def __eq__(self, other):
        return isinstance(other, LastCharIntegerExpr)

class MathIntegerExpr(IntegerExpr):
    def __init__(self, children: List[IntegerExpr], valid_type=OutputStorageType.INT):
        self.children = children
        
        for child in self.children:
            ProgramData.imbue(child, DTAG.PARENT, self)

        if not self.children:
            raise IllegalParseTree("Empty math expression", self)
    
        if valid_type is not None:
            if not all(x.result_type() == valid_type for x in self.children):
                raise IllegalParseTree("Invalid arithmetic type", self)

    def result_type(self):
        return self.children[0].result_type()

    def is_literal(self):
        return all(x.is_literal() for x in self.children)

    def get_invalid_contexts(self):
        returned = set()

        for ctx in itertools.chain(*(x.get_invalid_contexts() for x in self.children)):
            if ctx in returned:
                continue
            returned.add(ctx)
            yield ctx

    def __eq__(self, other):
        return type(other) == type(self) and self.children == other.children

    def get_child_expressions(self):
        return self.children

    def accesses(self):
        acc = []
        for i in self.children:
            acc.extend(i.accesses())
        return acc

class SumIntegerExpr(MathIntegerExpr):
    def __init__(self, children: List[IntegerExpr], negate: List[bool]):
        super().__init__(children)
        self.negate = negate

    def get_literal_result(self):
        total = self.children[0].get_literal_result()
        for operand, operator in itertools.islice(zip(self.children, self.negate), 1, None):
            if operator:
                total -= operand.get_literal_result()
            else:
                total += operand.get_literal_result()
        return total

    def __eq__(self, other):
        if not isinstance(other, SumIntegerExpr): return False
        return set(zip(self.children, self.negate)) == set(zip(other.children, other.negate))

class MulIntegerExprOp(enum.Enum):
    MUL = '*'
    DIV = '/'
    MOD = '%'

class MulIntegerExpr(MathIntegerExpr):
    def __init__(self, children: List[IntegerExpr], divide: List[MulIntegerExprOp]):
        super().__init__(children)
        self.divide = divide

    def get_literal_result(self):
        total = self.children[0].get_literal_result()
        for operand, operator in itertools.islice(zip(self.children, self.divide), 1, None):
            value = operand.get_literal_result()
            if operator == MulIntegerExprOp.MUL:
                total *= value
            else:
                # as in C: the quotient is truncated towards zero and the remainder takes the sign of the dividend
                quotient = abs(total) // abs(value)
                if (total < 0) != (value < 0):
                    quotient = -quotient
                total = quotient if operator == MulIntegerExprOp.DIV else total - quotient * value
        return total

    def __eq__(self, other):
        if not isinstance(other, MulIntegerExpr): return False
        return self.children == other.children and self.divide == other.divide

class CompareIntegerExprOp(enum.Enum):
    LT = "<"
    GT = ">"
    LE = "<="
    GE = ">="
    EQ = "=="
    NE = "!="

class CompareIntegerExpr(MathIntegerExpr):
    def __init__(self, left: IntegerExpr, right: IntegerExpr, op: CompareIntegerExprOp):
        super().__init__([left, right], valid_type=None)
        self.left = left
        self.right = right
        self.op = op

    def __eq__(self, other):
        if not isinstance(other, CompareIntegerExpr): return False
        return self.left == other.left and self.right == other.right and self.op == other.op

    def result_type(self):
        return OutputStorageType.BOOL

    def get_literal_result(self):
        left = self.left.get_literal_result()
        right = self.right.get_literal_result()

        if self.op == CompareIntegerExprOp.LT:
            return left < right
        elif self.op == CompareIntegerExprOp.GT:
            return left > right
        elif self.op == CompareIntegerExprOp.LE:
            return left <= right
        elif self.op == CompareIntegerExprOp.GE:
            return left >= right
        elif self.op == CompareIntegerExprOp.EQ:
            return left == right
        elif self.op == CompareIntegerExprOp.NE:
            return left != right
        else:
            return False

class BitShiftIntegerExpr(MathIntegerExpr):
    def __init__(self, left: IntegerExpr, right: IntegerExpr, towards_left: bool):
        super().__init__([left, right])
        self.left = left
        self.right = right
        self.towards_left = towards_left

    def __eq__(self, other):
        if not isinstance(other, BitShiftIntegerExpr): return False
        return self.left == other.left and self.right == other.right and self.towards_left == other.towards_left

    def get_literal_result(self):
        left = self.left.get_literal_result()
        right = self.right.get_literal_result()

        if not 0 <= right < 64:
            raise ValueError("shift count out of range")

        if self.towards_left:
            return left << right
        else:
            return left >> right

class BitwiseIntegerExprOp(enum.Enum):
    OR = "|"
    XOR = "^"
    AND = "&"

class BitwiseIntegerExpr(MathIntegerExpr):
    def __init__(self, children: List[IntegerExpr], operation: BitwiseIntegerExprOp):
        super().__init__(children)
        self.op = operation

    def __eq__(self, other):
        if not isinstance(other, BitwiseIntegerExpr): return False
        return self.children == other.children and self.op == other.op

    def get_literal_result(self):
        total = self.children[0].get_literal_result()

        for child in self.children[1:]:
            if self.op == BitwiseIntegerExprOp.OR:
                total |= child.get_literal_result()
            elif self.op == BitwiseIntegerExprOp.XOR:
                total ^= child.get_literal_result()
            else:
                total &= child.get_literal_result()

        return total

class DisjunctionIntegerExpr(MathIntegerExpr):
    def __init__(self, children):
        super().__init__(children, valid_type=OutputStorageType.BOOL)

    def get_literal_result(self):
        return any(x.get_literal_result() for x in self.children)

class ConjunctionIntegerExpr(MathIntegerExpr):
    def __init__(self, children):
        super().__init__(children, valid_type=OutputStorageType.BOOL)

    def get_literal_result(self):
        return all(x.get_literal_result() for x in self.children)

# ==========
# CONDITIONS
# ==========

class DFCondition:
    def __init__(self):
        pass

    def is_literal(self):
        """
        Is this condition's value computable now
        """

        return False

    def get_literal_result(self):
        """
        Is this condition active now?
        """

        return False

    def conflicts_with(self, other):
        return False

    def make_nonconflicting(self, other):
        """
        Returns (only_self, both, only_other)
        """

        return (self, ConstantCondition(False), other)

class ConstantCondition(DFCondition):
    def __init__(self, value: bool):
        self.value = value

    def is_literal(self): return True
    def get_literal_result(self): return self.value

    def conflicts_with(self, other):
        return self.value

    def make_nonconflicting(self, other):
        if self.value:
            return (ConstantCondition(False), other, ConstantCondition(False))
        else:
            return super().make_nonconflicting(other)

class ElseCondition(ConstantCondition, HasDefaultDebugInfo):
    def __init__(self):
        super().__init__(True)

    def debug_lookup(self, tag):
        if tag == DTAG.NAME:
            return "else"
        return None

class IntegerCondition(DFCondition, HasDefaultDebugInfo):
    def __init__(self, expr: IntegerExpr):
        if expr.result_type() != OutputStorageType.BOOL:
            if expr.result_type() == OutputStorageType.INT:
                expr = CompareIntegerExpr(expr, LiteralIntegerExpr(0), CompareIntegerExprOp.NE)
            else:
                raise IllegalParseTree("Condition must be convertable to bool", expr)

        if IntegerExprUseContext.CONDITION_PREDICATE in expr.get_invalid_contexts() and IntegerExprUseContext.CONDITION_PREDICATE_ACTION in expr.get_invalid_contexts():
            raise IllegalParseTree("Expression not valid for use as a predicate", expr)

        self.expr = expr

    def is_literal(self): return self.expr.is_literal()
    def get_literal_result(self): return self.expr.get_literal_result()

    def debug_lookup(self, tag):
        if tag == DTAG.NAME:
            return "if condition"
        return None


# ==========
# GENERAL RE 
# ==========

class RegexCharClass:
    def __init__(self, chars):
        self.chars = frozenset(chars)

    def clone(self):
        return RegexCharClass(self.chars)
        
    def isdisjoint(self, other):
        """
        Are these two character classes disjoint?
        """
        if isinstance(other, InvertedRegexCharClass):
            return self.chars <= other.chars
        elif isinstance(other, RegexCharClass):
            return other.chars.isdisjoint(self.chars)

    def split(self, other):
        """
        Split these two character clases into a tuple:

        (overlap, this_without_overlap, other_without_overlap)
        """
        if isinstance(other, InvertedRegexCharClass):
            # Any character which _we_ match, but which isn't in the Inverted chars set (i.e. which _it_ matches) is the overlap.
            # or-ing characters is the inverse of subtracting them
            overlap = self.chars - other.chars
            return (RegexCharClass(overlap), RegexCharClass(self.chars - overlap), InvertedRegexCharClass(other.chars | overlap))
        elif isinstance(other, RegexCharClass):
            # The overlap is just the intersection, and the non-overlapping parts make sense
            overlap = other.chars & self.chars
            return (RegexCharClass(overlap), RegexCharClass(self.chars - overlap), RegexCharClass(other.chars - overlap)) 

    def __eq__(self, other):
        return other.__class__ == self.__class__ and other.chars == self.chars

    def __ne__(self, other):
        return not self.__eq__(other)

    def empty(self):
        return not self.chars

    def union(self, other):
        if isinstance(other, InvertedRegexCharClass):
            return other.union(self)
        else:
            return RegexCharClass(self.chars | other.chars)

    def __hash__(self):
        return hash(self.__class__) ^ hash(self.chars)

    def __repr__(self):
        return f"<{self.__class__.__name__} of {self.chars!r}>"

    def invert(self):
        return InvertedRegexCharClass(self.chars)

class InvertedRegexCharClass(RegexCharClass):
    def clone(self):
        return InvertedRegexCharClass(self.chars)

    def isdisjoint(self, other):
        if isinstance(other, InvertedRegexCharClass):
            # Always have two inverted sets split up (into ^(S1 | S2), S2 - S1 and S1 - S2), even when between them they exclude
            # everything and ^(S1 | S2) comes out empty: a DFA state can only carry one inverted set (its Else).
            return False
        elif isinstance(other, RegexCharClass):
            return other.isdisjoint(self)

    def split(self, other):
        if isinstance(other, InvertedRegexCharClass):
            # ^S1 & ^S2 = ^(S1 | S2)
            # ^S1 - ^S2 = S2 - S1
            # ^() complements are represented as InvertedSets so we don't actually need to know what the full set is
            overlap = self.chars | other.chars
            return (InvertedRegexCharClass(overlap), RegexCharClass(other.chars - self.chars), RegexCharClass(self.chars - other.chars))
        elif isinstance(other, RegexCharClass):
            overlap, other, self = other.split(self)
            return (overlap, self, other)

    def empty(self):
        return len(self.chars) >= 256

    def union(self, other):
        if isinstance(other, InvertedRegexCharClass):
            return InvertedRegexCharClass(self.chars & other.chars)
        else:
            return InvertedRegexCharClass(self.chars - other.chars)

    def invert(self):
        return RegexCharClass(self.chars)


class RegexKleene:
    def __init__(self, sub_match):
        ProgramData.imbue(sub_match, DTAG.PARENT, self)
        self.sub_match = sub_match

class RegexOptional:
    def __init__(self, sub_match):
        ProgramData.imbue(sub_match, DTAG.PARENT, self)
        self.sub_match = sub_match

class RegexAlternation:
    def __init__(self, sub_matches):
        self.sub_matches = set(sub_matches)
        for sub_match in self.sub_matches:
            ProgramData.imbue(sub_match, DTAG.PARENT, self)

class RegexSequence:
    def __init__(self, sub_matches):
        self.sub_matches = list(sub_matches)
        for sub_match in self.sub_matches:
            ProgramData.imbue(sub_match, DTAG.PARENT, self)

class RegexNFState:
    Epsilon = object()

    class TransitionMeta:
        pass

    def __init__(self):
        self.transitions = {}
        self.epsilon_moves = set() 
        self.transition_dbg_metas = {}

    def transition(self, symbol, target):
        if symbol == RegexNFState.Epsilon:
            self.epsilon_moves.add(target)
        else:
            self.transitions[symbol] = target
        if symbol not in self.transition_dbg_metas:
            self.transition_dbg_metas[symbol] = ProgramData.imbue(RegexNFState.TransitionMeta(), DTAG.PARENT, self)
        return self

    def epsilon_closure(self, visited=None):
        if visited is None:
            visited = set()
        total_moves = set((self,))
        for move in self.epsilon_moves:
            total_moves.add(move)
            if move in visited:
                continue
            visited.add(move)
            total_moves |= move.epsilon_closure(visited)
        return total_moves

class RegexNFA:
    def __init__(self):
        self.states = []
        self.start_state = None
        self.finishing_states = []

    def add(self, *states):
        if self.start_state is None:
            self.start_state = states[0]
        self.states.extend(states)

    def mark_finishing(self, state):
        self.finishing_states.append(state)

    def convert_to_dfa(self, alphabet, target_dfa):
        """
        Convert the nfa to a dfa (but keep it in the same container type for simplicity's sake)
        """

        visited_states = {}  # frozenset of index to state
        index_cache = {}
        to_process = queue.Queue()

        def get_index(state):
            if state in index_cache:
                return index_cache[state]
            index_cache[state] = self.states.index(state)
            return index_cache[state]

        def moves(states, on):
            results = set() 
            upstream_meta = None
            for i in states:
                if on in self.states[i].transitions:
                    results.add(get_index(self.states[i].transitions[on]))
                    if upstream_meta is None:
                        upstream_meta = self.states[i].transition_dbg_metas[on]
            return results, upstream_meta

        def epsilon_closure(states):
            total = set()
            for i in states:
                total |= set(get_index(x) for x in self.states[i].epsilon_closure())
            return frozenset(total)


        start_dfa_state = frozenset(get_index(x) for x in self.start_state.epsilon_closure())
        finishing_idx = get_index(self.finishing_states[0])

        visited_states[start_dfa_state] = RegexNFState()
        if finishing_idx in start_dfa_state:
            target_dfa.mark_finishing(visited_states[start_dfa_state])
        to_process.put(start_dfa_state)
        ProgramData.imbue(visited_states[start_dfa_state], DTAG.PARENT, self.states[next(iter(start_dfa_state))])

        while not to_process.empty():
            processing = to_process.get()
            # find all potential edges
            for potential_move in alphabet:
                # is there anything here
                move_result, move_meta = moves(processing, potential_move)
                if move_result:
                    # the new state is the e-closure
                    new_state = epsilon_closure(move_result)
                    if new_state not in visited_states:
                        # create the new state
                        visited_states[new_state] = RegexNFState()
                        ProgramData.imbue(visited_states[new_state], DTAG.PARENT, self.states[next(iter(new_state))])
                        # should it be a finishing state?
                        if finishing_idx in new_state:
                            target_dfa.mark_finishing(visited_states[new_state])
                        to_process.put(new_state)
                    visited_states[processing].transition(potential_move, visited_states[new_state])
                    ProgramData.imbue(visited_states[processing].transition_dbg_metas[potential_move], DTAG.PARENT, move_meta)

        # add all the states
        for i in visited_states.values():
            target_dfa.add(i)

        return target_dfa

    def minimize_dfa(self, alphabet, new_dfa):
        """
        Use hopcroft's algorithm to minize the dfa_1

        Effectively, we continually separate the states into partitions based on an equality relationship and then
        use those new sets as the states
        """

        def initial_partition():
            T = {False: set(), True: set()}
            for state in self.states:
                if state in self.finishing_states:
                    T[True].add(state)
                else:
                    T[False].add(state)
            return set(frozenset(x) for x in T.values())

        P = set()
        T = initial_partition()

        def partition_containing(state):
            try:
                return next(p for p in P if state in p)
            except StopIteration:
                return None

        def split(S: Iterable[RegexNFState]):
            def splits(c):
                for state in S:
                    s1 = set()
                    s2 = set()

                    expected = state.transitions.get(c, None)
                    expected = partition_containing(expected)
                    for other in S:
                        actual = other.transitions.get(c, None)
                        actual = partition_containing(actual)
                        if actual == expected:
                            s1.add(other)
                        else:
                            s2.add(other)

                    if s1 and s2:
                        return {frozenset(s1), frozenset(s2)}

            for char in alphabet:
                split = splits(char)
                if split:
                    return split
            return {S}

        while P != T:
            P = T
            T = set()
            for p in P:
                T |= split(p)
        new_states = {}
        
        # Reconstruct the new dfa from the set equivalences
        
        def add_back(subset):
            state = next(iter(subset))
            new_state = RegexNFState()
            new_states[subset] = new_state
            new_dfa.add(new_state)
            ProgramData.imbue(new_state, DTAG.PARENT, state)

            if state in self.finishing_states:
                new_dfa.mark_finishing(new_state)

            for (character, target) in state.transitions.items():
                target_subset = partition_containing(target)

                if target_subset not in new_states:
                    add_back(target_subset)
                new_state.transition(character, new_states[target_subset])
                ProgramData.imbue(new_state.transition_dbg_metas[character], DTAG.PARENT, state.transition_dbg_metas[character])

            return new_state

        new_dfa.start_state = add_back(partition_containing(self.start_state))
        return new_dfa


class RegexMatch(Match):
    def __init__(self, regex_parse_tree):
        super().__init__()
        # First, get all the character classes we will encounter and create a mapping for them
        all_char_classes = self._visit_all_char_classes(regex_parse_tree)
        self.character_class_mappings = self._make_disjoint_groupings(all_char_classes)
        self.alphabet = set()
        for x in self.character_class_mappings.values():
            self.alphabet |= set(x)
        # Create the simplified representation
        self.regex_tree = self._interpret_parse_tree(regex_parse_tree)
        self.regex_tree = self._simplify_regex_tree(self.regex_tree)
        ProgramData.imbue(self.regex_tree, DTAG.PARENT, self)

        # Variables used during construction (similarly to how mlang works, to reduce arguments in recursive methods)
        self.nfa: Optional[RegexNFA] = None
        self.dfa_1: Optional[RegexNFA] = None
        self.dfa_2: Optional[RegexNFA] = None
        self.out_dfa_cache = {}

    def _convert_to_nfa(self, r, start_state: RegexNFState):
        """
        Convert the regex tree object into the NFA using Thompson construction. Return the finish state
        """
        ProgramData.imbue(start_state, DTAG.PARENT, r)

        if isinstance(r, RegexCharClass):
            # Simply convert to a boring form
            end_state = RegexNFState()
            self.nfa.add(end_state)
            start_state.transition(r, end_state)
            ProgramData.imbue(start_state.transition_dbg_metas[r], DTAG.PARENT, r)
            return ProgramData.imbue(end_state, DTAG.PARENT, r)
        elif isinstance(r, RegexAlternation):
            r"""
            Use the union form:
             /e-(s    f)-e\
            q              f 
             \e-(s2  f2)-e/
            """
            # Create a set of start states
            sub_starts = [RegexNFState() for x in r.sub_matches]
            end_state = RegexNFState()
            self.nfa.add(end_state, *sub_starts)
            # Link everything up
            for i, j in zip(sub_starts, r.sub_matches):
                # Link e from start to sub start
                start_state.transition(RegexNFState.Epsilon, i)
                # Create sub expr & link to end
                self._convert_to_nfa(j, i).transition(RegexNFState.Epsilon, end_state)
            return ProgramData.imbue(end_state, DTAG.PARENT, r)
        elif isinstance(r, RegexSequence):
            # Chain them all together
            for i in r.sub_matches:
                start_state = self._convert_to_nfa(i, start_state)
            return start_state
        elif isinstance(r, RegexOptional):
            # Create a kleene star without the repetition bit
            end_state = RegexNFState()
            sub_start = RegexNFState()
            self.nfa.add(end_state, sub_start)
            start_state.transition(RegexNFState.Epsilon, end_state).transition(RegexNFState.Epsilon, sub_start)
            sub_end = self._convert_to_nfa(r.sub_match, sub_start)
            sub_end.transition(RegexNFState.Epsilon, end_state)
            ProgramData.imbue(sub_end.transition_dbg_metas[RegexNFState.Epsilon], DTAG.PARENT, r)
            return ProgramData.imbue(end_state, DTAG.PARENT, r)
        elif isinstance(r, RegexKleene):
            r"""
            Use the kleene form:
                     <-e-
                    /    \
            q -e-> (s    f) -e-> f
             \                  /
              --- ----e--> -----
            """
            end_state = RegexNFState()
            sub_start = RegexNFState()
            self.nfa.add(end_state, sub_start)
            start_state.transition(RegexNFState.Epsilon, end_state).transition(RegexNFState.Epsilon, sub_start)
            sub_end = self._convert_to_nfa(r.sub_match, sub_start)
            sub_end.transition(RegexNFState.Epsilon, end_state).transition(RegexNFState.Epsilon, sub_start)
            ProgramData.imbue(sub_end.transition_dbg_metas[RegexNFState.Epsilon], DTAG.PARENT, r)
            return ProgramData.imbue(end_state, DTAG.PARENT, r)
        else:
            raise NotImplementedError("unknown")

    def _simplify_regex_tree(self, r):
        """
        Simplify the regex tree recursively
        """
        if isinstance(r, RegexAlternation) or isinstance(r, RegexSequence):
            r.sub_matches = [self._simplify_regex_tree(x) for x in r.sub_matches]
            if len(r.sub_matches) == 1:
                return r.sub_matches[0]
            return r
        if isinstance(r, RegexOptional) or isinstance(r, RegexKleene):
            r.sub_match = self._simplify_regex_tree(r.sub_match)
            return r
        return r

    def _repeat_count(self, token: lark.Token):
        # (the number terminal admits a sign)
        if len(token.value) > ParseCtx.MAX_INT_LITERAL_LENGTH:
            raise IllegalParseTree("Repetition count is too long", token)
        count = int(token.value)
        if count < 0:
            raise IllegalParseTree("Repetition count is negative", token)
        return count

    def _interpret_parse_tree(self, regex_tree: lark.Tree):
        tree_data = regex_tree.data
        if tree_data.startswith("binary_"):
            tree_data = tree_data[len("binary_"):]
        if tree_data in ("regex", "regex_group"):
            return RegexSequence(self._interpret_parse_tree(x) for x in regex_tree.children)
        elif tree_data in ("regex_any", "regex_char_class", "regex_set", "regex_inverted_set"):
            return ProgramData.imbue(
                RegexAlternation([x.clone() for x in self.character_class_mappings[list(self._visit_all_char_classes(regex_tree))[0]]]),
                DTAG.SOURCE_LINE, regex_tree.meta.line,
                DTAG.SOURCE_COLUMN, regex_tree.meta.column
            )
        elif tree_data == "regex_alternation":
            return ProgramData.imbue(
                RegexAlternation(self._interpret_parse_tree(x) for x in regex_tree.children),
                DTAG.SOURCE_LINE, regex_tree.meta.line,
                DTAG.SOURCE_COLUMN, regex_tree.meta.column
            )
        elif tree_data == "regex_raw_match":
            return ProgramData.imbue(
                RegexAlternation([x.clone() for x in self.character_class_mappings[self._convert_raw_regex_unimportant(regex_tree.children[0])]]),
                DTAG.SOURCE_LINE, regex_tree.meta.line,
                DTAG.SOURCE_COLUMN, regex_tree.meta.column
            )
        elif tree_data == "regex_operation":
            sub_match = self._interpret_parse_tree(regex_tree.children[0])
            if regex_tree.children[1].value == "+":
                val = RegexSequence((sub_match, RegexKleene(sub_match)))
            else:
                val = {"*": RegexKleene, "?": RegexOptional}[regex_tree.children[1].value](sub_match)
            ProgramData.imbue(val, DTAG.SOURCE_LINE, regex_tree.children[1].line)
            ProgramData.imbue(val, DTAG.SOURCE_COLUMN, regex_tree.children[1].column)
            return val
        elif tree_data == "regex_exact_repeat":
            repeated_match = self._interpret_parse_tree(regex_tree.children[0])
            repeat_times   = self._repeat_count(regex_tree.children[1])
            return ProgramData.imbue(
                RegexSequence(itertools.repeat(repeated_match, repeat_times)),
                DTAG.SOURCE_LINE, regex_tree.children[1].line,
                DTAG.SOURCE_COLUMN, regex_tree.children[1].column
            )
        elif tree_data == "regex_at_least_repeat":
            repeated_match = self._interpret_parse_tree(regex_tree.children[0])
            repeat_times   = self._repeat_count(regex_tree.children[1])
            return ProgramData.imbue(
                RegexSequence([repeated_match for x in range(repeat_times)] + [RegexKleene(repeated_match)]),
                DTAG.SOURCE_LINE, regex_tree.children[1].line,
                DTAG.SOURCE_COLUMN, regex_tree.children[1].column
            )
        elif tree_data == "regex_range_repeat":
            repeated_match = self._interpret_parse_tree(regex_tree.children[0])
            repeat_times_min = self._repeat_count(regex_tree.children[1])
            repeat_times_max = self._repeat_count(regex_tree.children[2])
            if repeat_times_max < repeat_times_min:
                raise IllegalParseTree("Repetition range is reversed", regex_tree.children[2])
            return ProgramData.imbue(RegexSequence(itertools.chain(
                itertools.repeat(repeated_match, repeat_times_min),
                itertools.repeat(RegexOptional(repeated_match), repeat_times_max - repeat_times_min)
            )),
                DTAG.SOURCE_LINE, regex_tree.children[1].line,
                DTAG.SOURCE_COLUMN, regex_tree.children[1].column,
            )
        else:
            raise NotImplementedError("don't handle {} yet".format(tree_data))

    def _convert_raw_regex_unimportant(self, regex_tree: lark.Token):
        if regex_tree.value[0] == '\\':
            v = RegexCharClass((regex_tree.value[1],))
        else:
            v = RegexCharClass((regex_tree.value[0],))
        if any(ord(x) > 255 for x in v.chars):
            raise IllegalParseTree("Regular expression contains a character outside the byte range (use a binary regex)", regex_tree)
        ProgramData.imbue(v, DTAG.SOURCE_LINE, regex_tree.line)
        ProgramData.imbue(v, DTAG.SOURCE_COLUMN, regex_tree.column)
        return v

    def _convert_raw_regex_char_class(self, regex_char_class: lark.Tree):
        val = {
            "n": RegexCharClass("\n"),
            "t": RegexCharClass("\t"),
            "r": RegexCharClass("\r"),
            "w": RegexCharClass(string.ascii_letters + string.digits + "_"),
            "W": InvertedRegexCharClass(string.ascii_letters + string.digits + "_"),
            "d": RegexCharClass(string.digits),
            "D": InvertedRegexCharClass(string.digits),
            "s": RegexCharClass(string.whitespace),
            "S": InvertedRegexCharClass(string.whitespace),
            " ": RegexCharClass(" ")
        }[regex_char_class.children[0].value[0]]
        ProgramData.imbue(val, DTAG.SOURCE_LINE, regex_char_class.children[0].line)
        ProgramData.imbue(val, DTAG.SOURCE_COLUMN, regex_char_class.children[0].column)
        return val

    def _visit_all_char_classes(self, regex_tree: lark.Tree):
        """
        Recursively find all character classes in the tree and return them as a set.
        """

        if regex_tree.data in ("regex", "regex_group", "regex_alternation"):
            result = set()
            for child in regex_tree.children:
                result |= self._visit_all_char_classes(child)
            return result
        if regex_tree.data == "regex_raw_match":
            return set(self._convert_raw_regex_unimportant(x) for x in regex_tree.children)
        if regex_tree.data == "regex_any":
            return set((InvertedRegexCharClass(()),))
        if regex_tree.data == "regex_char_class":
            return set((self._convert_raw_regex_char_class(regex_tree),))
        if regex_tree.data in ("regex_operation", "regex_exact_repeat", "regex_range_repeat", "regex_at_least_repeat"):
            return self._visit_all_char_classes(regex_tree.children[0])
        if regex_tree.data in ("regex_set", "regex_inverted_set"):
            inverted = regex_tree.data != "regex_set"
            incoming_set = RegexCharClass(())
            for child in regex_tree.children:
                if isinstance(child, lark.Token):
                    new_set = self._convert_raw_regex_unimportant(child)
                elif child.data == "regex_set_range":
                    start = list(self._convert_raw_regex_unimportant(child.children[0]).chars)[0]
                    end = list(self._convert_raw_regex_unimportant(child.children[1]).chars)[0]
                    if ord(end) < ord(start):
                        raise IllegalParseTree("Character range is reversed", child.children[1])
                    new_set = RegexCharClass(chr(x) for x in range(ord(start), ord(end)+1))
                else:
                    new_set = self._convert_raw_regex_char_class(child)
                incoming_set = incoming_set.union(new_set)
            if inverted:
                incoming_set = incoming_set.invert()
            if incoming_set.empty():
                # nothing gets past such a set, but the states leading up to it would still be built: the mismatch would be reported late
                raise IllegalParseTree("Character set matches nothing", regex_tree)
            return set((incoming_set,))


    def _make_disjoint_groupings(self, original_char_classes: List[RegexCharClass]):
        """
        Take the potentially disjoint character classes and convert them to a dictionary of those original classes to a list
        of guaranteed disjoint classes.

        The union of all the values of the dictionary is the new temporary input alphabet for the regex-NFA

        Every time a given class occurs, it can be replaced with an alternation of these classes.
        """
        total_char_classes = list(original_char_classes)
        new_character_classes = {
            original: [i] for i, original in enumerate(total_char_classes)
        }

        """
        In effect, keep finding non-disjoint character classes and splitting them up.
        The large amount of logic is primarily to deal with iteration problems
        """
        keepgoing = True
        while keepgoing:
            keepgoing = False
            for ia, ib in itertools.combinations(range(len(total_char_classes)), 2):
                a = total_char_classes[ia]
                b = total_char_classes[ib]
                if not a.isdisjoint(b):
                    dprint[ProgramFlag.VERBOSE_REGEX_CCLASS]("splitting", a, "and", b)
                    keepgoing = True
                    # Split
                    overlap, newa, newb = a.split(b)
                    dprint[ProgramFlag.VERBOSE_REGEX_CCLASS]("into", overlap, newa, newb)
                    io = len(total_char_classes)
                    # Add overlap
                    total_char_classes.append(overlap)
                    # Search
                    for k in new_character_classes:
                        if ia in new_character_classes[k]:
                            dprint[ProgramFlag.VERBOSE_REGEX_CCLASS]("adding overlap for a at", k)
                            new_character_classes[k].append(io)
                        if ib in new_character_classes[k]:
                            dprint[ProgramFlag.VERBOSE_REGEX_CCLASS]("adding overlap for b at", k)
                            new_character_classes[k].append(io)
                    # Overwrite
                    total_char_classes[ia] = newa
                    total_char_classes[ib] = newb
                    # Do again
                    break

        return {k: [*(total_char_classes[i] for i in v if not total_char_classes[i].empty())] for k, v in new_character_classes.items()}

    def _create_dfa_state(self, nfdfa_state: RegexNFState, into: DFA, is_start: bool, else_path):
        """
        Recursively create the new states
        """

        if id(nfdfa_state) in self.out_dfa_cache:
            return self.out_dfa_cache[id(nfdfa_state)]

        transitions = nfdfa_state.transitions
        new_transitions = {frozenset((DFTransition.Else,)): (else_path, False)}

        new_state = DFState()
        ProgramData.imbue(new_state, DTAG.PARENT, nfdfa_state)
        self.out_dfa_cache[id(nfdfa_state)] = new_state
        into.add(new_state)

        new_transition_upstreams = {}

        if nfdfa_state in self.dfa_2.finishing_states:
            into.mark_accepting(new_state)

        for source, target in transitions.items():
            if isinstance(source, InvertedRegexCharClass):
                # TODO: handle multiple of these
                # Convert to a normal set
                new_transitions[source.chars | frozenset((DFTransition.End,))] = (else_path, False)
                new_transitions[frozenset((DFTransition.Else,))] = (self._create_dfa_state(target, into, False, else_path), target in self.dfa_2.finishing_states)
                new_transition_upstreams[DFTransition.Else] = nfdfa_state.transition_dbg_metas[source]
            else:
                new_transitions[source.chars] = (self._create_dfa_state(target, into, False, else_path), target in self.dfa_2.finishing_states)
                for i in source.chars:
                    new_transition_upstreams[i] = nfdfa_state.transition_dbg_metas[source]

        # Simplify
        new_transitions_inverse = defaultdict(list) 
        for source, target in new_transitions.items():
            new_transitions_inverse[target].append(source)

        new_transitions = {}
        for target, sources in new_transitions_inverse.items():
            total = set()
            for x in sources:
                total |= x
            new_transitions[frozenset(total)] = target

        for source, (target, use_finish) in new_transitions.items():
            source = set(source)
            use_each = target != else_path

            actions = []
            if is_start:
                actions.extend(self.start_actions)
            if use_each:
                actions.extend(self.char_actions)
            if use_finish:
                actions.extend(self.finish_actions)
            
            # resolve conflicts
            for conflict in new_state.all_transitions_for(source):
                # if we are else, remove from us
                if target == else_path:
                    source -= set(conflict.on_values)
                # otherwise, throw error
                elif conflict.target != else_path:
                    raise IllegalDFAStateConflictsError("Duplicate transition", target, new_state)
                else:
                    # They are else, remove from them
                    for x in source:
                        if x in conflict.on_values:
                            conflict.on_values.remove(x)

            new_transition = DFTransition(list(source)).to(target).attach(*actions).fallthrough(target == else_path).handles_else(target == else_path)
            if new_transition.on_values[0] in new_transition_upstreams:
                ProgramData.imbue(new_transition, DTAG.PARENT, new_transition_upstreams[new_transition.on_values[0]])
            new_state.transition(new_transition)

        return new_state

    def convert(self, current_error_handlers: dict):
        # First convert to an NFA
        self.nfa = RegexNFA()
        start_state = RegexNFState()
        self.nfa.add(start_state)
        self.nfa.mark_finishing(self._convert_to_nfa(self.regex_tree, start_state))
        # Then convert to a DFA

        new_dfa = RegexNFA()
        ProgramData.imbue(new_dfa, DTAG.PARENT, self)
        self.dfa_1 = self.nfa.convert_to_dfa(self.alphabet, new_dfa)
        # Minimize the DFA

        new_dfa = RegexNFA()
        ProgramData.imbue(new_dfa, DTAG.PARENT, self)
        self.dfa_2 = self.dfa_1.minimize_dfa(self.alphabet, new_dfa)
        
        # Check if it's possible to schedule the finish actions. TODO: instead of throwing an error, attempt to move them to the next thing's start
        strict_actions = timing_strict_actions(self.finish_actions)
        if strict_actions and any(x.transitions for x in self.dfa_2.finishing_states):
            # Complain early
            raise UnableToScheduleActionError((x for x in self.dfa_2.finishing_states if x.transitions), strict_actions)

        # Create a normal SM
        out_dfa = DFA()
        self._create_dfa_state(self.dfa_2.start_state, out_dfa, True, current_error_handlers[ErrorReasons.NO_MATCH])
        if self.finish_actions and out_dfa.starting_state in out_dfa.accepting_states:
            # The finish actions sit on the transitions entering a finishing state; when the expression matches nothing no such transition is taken.
            out_dfa.append_action_step(self.finish_actions, [out_dfa.starting_state])
        return ProgramData.imbue(out_dfa, DTAG.PARENT, self)

class BinaryRegexMatch(RegexMatch):
    def _visit_all_char_classes(self, regex_tree: lark.Tree):
        if regex_tree.data in ("binary_regex", "binary_regex_group", "binary_regex_alternation"):
            result = set()
            for child in regex_tree.children:
                result |= self._visit_all_char_classes(child)
            return result
        if regex_tree.data == "binary_regex_raw_match":
            return set(self._convert_raw_regex_unimportant(x) for x in regex_tree.children)
        if regex_tree.data == "binary_regex_any":
            return set((InvertedRegexCharClass(()),))
        if regex_tree.data in ("binary_regex_operation", "binary_regex_exact_repeat", "binary_regex_range_repeat", "binary_regex_at_least_repeat"):
            return self._visit_all_char_classes(regex_tree.children[0])
        if regex_tree.data in ("binary_regex_set", "binary_regex_inverted_set"):
            inverted = regex_tree.data != "binary_regex_set"
            incoming_set = RegexCharClass(())
            for child in regex_tree.children:
                if isinstance(child, lark.Token):
                    new_set = self._convert_raw_regex_unimportant(child)
                elif child.data == "binary_regex_set_range":
                    start = list(self._convert_raw_regex_unimportant(child.children[0]).chars)[0]
                    end = list(self._convert_raw_regex_unimportant(child.children[1]).chars)[0]
                    if ord(end) < ord(start):
                        raise IllegalParseTree("Character range is reversed", child.children[1])
                    new_set = RegexCharClass(chr(x) for x in range(ord(start), ord(end)+1))
                incoming_set = incoming_set.union(new_set)
            if inverted:
                incoming_set = incoming_set.invert()
            if incoming_set.empty():
                # nothing gets past such a set, but the states leading up to it would still be built: the mismatch would be reported late
                raise IllegalParseTree("Character set matches nothing", regex_tree)
            return set((incoming_set,))

    def _convert_raw_regex_unimportant(self, byte: lark.Token):
        v = RegexCharClass((chr(int(byte.value, base=16)),))
        ProgramData.imbue(v, DTAG.SOURCE_LINE, byte.line)
        ProgramData.imbue(v, DTAG.SOURCE_COLUMN, byte.column)
        return v

class WaitMatch(Match):
    def __init__(self, sub_match: Match):
        super().__init__()
        ProgramData.imbue(sub_match, DTAG.PARENT, self)
        self.match_contents = sub_match

    def attach(self, action: Action):
        self.match_contents.attach(action)
        super().attach(action)

    def convert(self, current_error_handlers: dict):
        sm = self.match_contents.convert(current_error_handlers)
        for state, trans in sm.transitions_pointing_to(current_error_handlers[ErrorReasons.NO_MATCH], True):
            if state not in sm.states:
                # Reached through an action that leaves the pattern (a break attached to its last transition leads into whatever follows the
                # loop, which has been built already): not part of what is waited for
                continue
            trans.to(sm.starting_state).handles_else()  # we make these error handling since that makes semantic sense for the usual use case for a wait node
            if state == sm.starting_state:
                trans.fallthrough(False).attach(*self.char_actions)
        return sm

class EndMatch(Match):
    def convert(self, current_error_handlers: dict):
        """
            END
        s   -->  s
         0        1
        """
        sm = DFA()
        ProgramData.imbue(sm, DTAG.PARENT, self)
        start_state = DFState()
        sm.add(start_state)
        ok_state = DFState()
        sm.add(ok_state)
        sm.mark_accepting(ok_state)
        # (no character is consumed here, so the each-character actions -- an append, a foreach body -- have nothing to run on)
        start_state.transition(DFTransition([DFTransition.End]).attach(*self.start_actions, *self.finish_actions).to(ok_state))
        start_state.transition(DFTransition([DFTransition.Else]).to(current_error_handlers[ErrorReasons.NO_MATCH]).attach(*self.start_actions).fallthrough().handles_else())
        return sm

class ConcatMatch(Match):
    def __init__(self, sub_matches: List[Match]):
        super().__init__()
        self.sub_matches = sub_matches
        for i in sub_matches:
            ProgramData.imbue(i, DTAG.PARENT, self)

    def convert(self, current_error_handlers: dict):
        # distribute actions
        self.sub_matches[0].start_actions.extend(self.start_actions)
        self.sub_matches[-1].finish_actions.extend(self.finish_actions)
        for i in self.sub_matches:
            i.char_actions.extend(self.char_actions.copy())
        # convert in order
        sm = self.sub_matches[0].convert(current_error_handlers)
        for i in self.sub_matches[1:]:
            sm.append_after(i.convert(current_error_handlers))
        return sm

class MatchNode(ActionSinkNode):
    """
    Node which executes a match.
    """

    def __init__(self, match: Match):
        ProgramData.imbue(match, DTAG.PARENT, self)
        self.match = match
        self.next = None

    def _adopt_actions(self, actions: List[Action]):
        for action in actions:
            self.match.attach(action)

    def _set_next(self, next_node):
        self.next = next_node

    def get_next(self):
        return self.next

    def convert(self, current_error_handlers: dict):
        base_dfa = self.match.convert(current_error_handlers)
        if self.next is not None:
            base_dfa.append_after(self.next.convert(current_error_handlers))
        return base_dfa

class CaseNode(Node):
    """
    Handles cases.
    """

    def __init__(self, sub_matches: Dict[Set[Optional[Match]], Node], greedy: bool = False, priorities: Dict[Set[Optional[Match]], int] = None):
        super().__init__()
        self.sub_matches = {k: v for k, v in sub_matches.items() if v is not None}
        self.empty_matches = [k for k, v in sub_matches.items() if v is None]
        self.priorities = defaultdict(int)
        if priorities:
            self.priorities.update(priorities)
        self.case_match_actions = defaultdict(list)
        self.next = None
        self.greedy = greedy

        self._find_case_actions()

    def _find_case_actions(self):
        """
        Find all the case actions and delete ActionNodes
        """

        to_replace = []

        for sub_matches, target in self.sub_matches.items():
            if not isinstance(target, ActionSourceNode):
                continue

            actions, new_next = target.adopt_actions_from()

            # adopt into our internal list
            self.case_match_actions.update({sub_matches: actions})
            if new_next is not None:
                self.sub_matches[sub_matches] = new_next
            else:
                to_replace.append(sub_matches)

        for i in to_replace:
            del self.sub_matches[i]
            self.empty_matches.append(i)

    def _merge(self, ds: Iterable[DFA], error_handling_state: DFState, priorities: Dict[DFA, int]):
        r"""
        Merge the DFAs in the list ds, ensuring that all finishing states are kept as-is.

        This uses largely the same algorithm as the NFA-to-DFA conversion, treating the input as an NFA of the form
             s
            /| \ 
          e  e   e
         /   |    \ 
        D1  D2 .. Dn

        As such, we can generally use a similar, if simplified algorithm.

        The technique is similar, keeping track of new states as sets of sub-states. Instead of directly using indices to name states, we use tuples of DFA-index and index in that DFA.

        In order to deal with the complexities of the DFA representation in NMFU, we do a simplification pass on the input alphabet. For each "superstate" -- that is, an NFA state (set
        of DFA states), we consider a "local alphabet", which is the set of all sets of symbols matched by all transitions in all substates. We then do a pass on this to convert those
        sets into disjoint sets, forming the true "local alphabet". We then use these to generate the transitions on the new DFA state, considering elements of the local alphabet
        which no substates match to form the set of error symbols -- or the "Else" transition, perhaps.

        We also ignore all transitions that go to the entry marked as error-handling, as we re-create all the else transitions later.

        We start in state (D1,D1_start),(D2,D2_start),...,(Dn,Dn_start)
        """

        new_dfa = DFA()

        converted_states = {}
        corresponding_finish_states = {dfa: [] for dfa in ds}
        to_process = queue.Queue()

        def create_real_state_of(state, upstream_metas=None):
            new_state = DFState()
            ProgramData.imbue(new_state, DTAG.PARENT, next(iter(state))[1])

            corresponds_to_finishes_in = set() 
            finish_upstream_metas = {}
            upstream_meta_replacement = {}
            
            if upstream_metas is not None:
                for trans in upstream_metas:
                    upstream_meta_replacement[trans.target] = trans

            is_part_of = set()
            for sub_dfa, sub_state in state:
                if sub_state in sub_dfa.accepting_states:
                    corresponds_to_finishes_in.add(sub_dfa)
                    finish_upstream_metas[sub_dfa] = upstream_meta_replacement.get(sub_state, sub_state)
                is_part_of.add(sub_dfa)

            if len(corresponds_to_finishes_in) > 1:
                if not self.greedy:
                    raise IllegalDFAStateConflictsError("Ambigious case label: multiple possible finishes", *finish_upstream_metas.values())
                target = max(corresponds_to_finishes_in, key=lambda x: priorities[x])
                if sum(1 for x in corresponds_to_finishes_in if priorities[x] == priorities[target]) > 1:
                    raise IllegalDFAStateConflictsError("Ambigious case label: multiple possible finishes with same priority {}".format(priorities[target]), 
                            *(finish_upstream_metas[x] for x in corresponds_to_finishes_in if priorities[x] == priorities[target]))
                corresponding_finish_states[target].append(new_state)
                new_dfa.mark_accepting(new_state)
            elif len(corresponds_to_finishes_in) == 1:
                if len(is_part_of) != 1 and not self.greedy:
                    raise IllegalDFAStateConflictsError("Ambigious case label: should finish or check next. If you mean to finish, use a greedy case.", *is_part_of)
                corresponding_finish_states[next(iter(corresponds_to_finishes_in))].append(new_state)
                new_dfa.mark_accepting(new_state)

            # Add the state
            converted_states[state] = new_state
            new_dfa.add(new_state)
            return new_state

        start_state = frozenset((dfa, dfa.starting_state) for dfa in ds)
        create_real_state_of(start_state)
        to_process.put(start_state)

        while not to_process.empty():
            processing = to_process.get()

            # set of all symbols this dfa state needs to match against. should be disjoint sets
            local_alphabet = set()
            # set of all symbols which none of the states in this superstate match on (and should therefore
            # be directed to the else state)
            actual_else = set()

            # find all possible symbols that this superstate needs to check for
            for _, sub_state in processing:
                for trans in sub_state.transitions:
                    local_alphabet.add(frozenset(trans.on_values))

            # simplify such that each element in local_alphabet is both disjoint and are all subsets of
            # at least one entry in the original local_alphabet (i.e. such that any original element can
            # be created by combining new ones)

            while True:
                try:
                    a, b = next((x, y) for x, y in itertools.combinations(local_alphabet, 2) if (x & y))
                    overlap = a & b
                    local_alphabet.remove(a)
                    local_alphabet.remove(b)
                    a = a - overlap
                    b = b - overlap
                    if a: local_alphabet.add(a)
                    if b: local_alphabet.add(b)
                    local_alphabet.add(overlap)
                except StopIteration:
                    break

            # process all moves with those sets as the alphabet

            for symbol in local_alphabet:
                # construct the set of next states
                next_state = set()
                # did we find a transition that marked this symbol as being an error?
                # since all symbols are now disjoint, two situations occur if this is set:
                #   a) at least one state correctly matches this symbol, and the others do not
                #      in this case, we should just discard those other states (since there is no
                #      reason to "speculatively execute" the error state, obviously)
                #   b) none of the states correctly match this symbol, in which case it is an overall error.
                #      in this case, we should add the symbol to the list of symbols that we will assign
                #      an error transition to
                found_else_transition = False
                upstream_metas = []
                for (sub_dfa, sub_state) in processing:
                    potential_transition = sub_state[symbol]
                    if potential_transition is None:
                        continue
                    if potential_transition.error_handling:
                        found_else_transition = True
                        continue
                    else:
                        next_state.add((sub_dfa, potential_transition.target))
                        upstream_metas.append(potential_transition)

                # if case b) is met 
                if not next_state:
                    actual_else |= symbol
                    continue

                next_state = frozenset(next_state)

                if next_state not in converted_states:
                    to_process.put(next_state)
                    next_state = create_real_state_of(next_state, upstream_metas)
                else:
                    next_state = converted_states[next_state]

                converted_states[processing].transition(
                        ProgramData.imbue(DFTransition(symbol).to(next_state), DTAG.PARENT, upstream_metas[0]), 
                        allow_replace=True)

            # check if we need else (is this a finishing state). A finishing state only keeps the symbols which a pattern that continues
            # here on "anything else" explicitly excludes (end-of-input above all): its Else must not swallow them
            if converted_states[processing] in new_dfa.accepting_states:
                if DFTransition.Else in actual_else or not any(DFTransition.Else in x.on_values for x in converted_states[processing].transitions):
                    continue

            if DFTransition.Else in actual_else:
                # just use it
                actual_else = set((DFTransition.Else,))
            
            if actual_else: # sometimes you actually don't need one
                converted_states[processing].transition(DFTransition(list(actual_else)).to(error_handling_state).fallthrough().handles_else(), allow_replace=True)

        return new_dfa, corresponding_finish_states

    def get_next(self):
        return self.next

    def set_next(self, next_node):
        if isinstance(next_node, ActionSourceNode):
            actions, our_next_node = next_node.adopt_actions_from()
            for sub_ast in self.sub_matches.values():
                # Go to end of sub_ast
                while sub_ast.get_next() is not None:
                    sub_ast = sub_ast.get_next()

                # Adopt it
                new_action_node = ActionNode(*actions)
                sub_ast.set_next(new_action_node)
            for empty_match in self.empty_matches:
                self.case_match_actions[empty_match].extend(actions)
            self.next = our_next_node
        else:
            self.next = next_node

    def convert(self, current_error_handlers):
        has_else = any(None in x for x in itertools.chain(self.sub_matches.keys(), self.empty_matches))

        # First, render out all of the sub_dfas
        sub_dfas = {x: y.convert(current_error_handlers) for x, y in self.sub_matches.items()}

        # Map of (DFA) -> (set of Matches)
        original_backreference = {}
        # Map of (DFA) -> (set of Empty Matches) aka matches that have nothing but actions
        empty_backreference = {}
        # All dfas that need to be merged
        mergeable_ds = set() 
        # Their priorities
        priorities = {}
        # Flatten the sub_matches
        for sub_matches in self.sub_matches:
            for sub_match in sub_matches:
                if sub_match is not None:
                    converted = sub_match.convert(current_error_handlers)
                    original_backreference[converted] = sub_matches
                    mergeable_ds.add(converted)
                    priorities[converted] = self.priorities[sub_matches]
                else:
                    original_backreference[None] = sub_matches
        for empty_matches in self.empty_matches:
            for empty_match in empty_matches:
                if empty_match is not None:
                    converted = empty_match.convert(current_error_handlers)
                    original_backreference[converted] = None
                    empty_backreference[converted] = empty_matches
                    mergeable_ds.add(converted)
                    priorities[converted] = self.priorities[empty_matches]
                else:
                    original_backreference[None] = None
                    empty_backreference[None] = None

        if not mergeable_ds:
            raise IllegalASTStateError("Case statement has no patterns to match (only an else clause)", self)

        # Create the merged acceptor
        decider_dfa, corresponding_finish_states = self._merge(mergeable_ds, current_error_handlers[ErrorReasons.NO_MATCH], priorities)

        # Check if we need to handle else
        if has_else:
            try:
                else_actions = next(v for k, v in self.case_match_actions.items() if None in k)
            except StopIteration:
                else_actions = []

            # Is there a sub-DFA (actual clause to execute) for the else transition?
            if original_backreference[None] is not None:
                # Find all transitions that would be pointing to a nomatch...
                for state, trans in decider_dfa.transitions_pointing_to(current_error_handlers[ErrorReasons.NO_MATCH], include_states=True):
                    if state in decider_dfa.accepting_states:
                        continue # a clause is complete here: this is where the case ends, not a mismatch
                    # ... and reattach them to the new else state machine
                    trans.to(sub_dfas[original_backreference[None]].starting_state).attach(*else_actions).handles_else()
                    ProgramData.imbue(trans, DTAG.NAME, "else action on case node")
                    ProgramData.imbue(trans, DTAG.PARENT, self)
                # We have to add that DFA's state to the overall dfa's states array, since it won't get picked up by mergable_ds _UNLESS_ original_backreference contains more than frozenset({None})
                if len(original_backreference[None]) == 1:
                    for state in sub_dfas[original_backreference[None]].states:
                        if state in sub_dfas[original_backreference[None]].accepting_states:
                            decider_dfa.mark_accepting(state)
                        decider_dfa.add(state)
            else:
                # Otherwise, make up our own very stupid one.
                new_state = DFState()
                decider_dfa.mark_accepting(new_state)
                decider_dfa.add(new_state)
                for state, trans in decider_dfa.transitions_pointing_to(current_error_handlers[ErrorReasons.NO_MATCH], include_states=True):
                    if state in decider_dfa.accepting_states:
                        continue # a clause is complete here: this is where the case ends, not a mismatch
                    trans.to(new_state).attach(*else_actions, prepend=True).fallthrough().handles_else()  # this is an error handler, make sure it's a fallthrough
                    # give the transition better debug info
                    ProgramData.imbue(trans, DTAG.NAME, "else action on case node")
                    ProgramData.imbue(trans, DTAG.PARENT, self)

        # Go through and link up all the states
        for i in mergeable_ds:
            # If there was no state machine associated with the DFA
            if original_backreference[i] is None:
                # Find the actual backref
                true_backref = empty_backreference[i]
                # If this was _not_ the else
                if true_backref is not None:
                    # Handle empty matches. Entering a finish state only means that the clause is taken if the decider is left for good there: where it
                    # goes on matching (a longer input may select another clause, or fall out to the else clause; a repeating pattern comes round again)
                    # or has not consumed anything yet, the clause's actions wait until it is left.
                    left_for_good = [x for x in corresponding_finish_states[i] if x is not decider_dfa.starting_state and all(t.error_handling for t in x.transitions)]
                    still_matching = [x for x in corresponding_finish_states[i] if x not in left_for_good]
                    all_transitions_empty = set().union(*(decider_dfa.transitions_pointing_to(x) for x in left_for_good))
                    strict_actions = timing_strict_actions(self.case_match_actions[true_backref])
                    if len(all_transitions_empty) > 1 and strict_actions:
                        raise UnableToScheduleActionError([i], strict_actions)
                    # Add actions
                    for j in all_transitions_empty:
                        j.attach(*self.case_match_actions[true_backref], prepend=True)
                    if still_matching and self.case_match_actions[true_backref]:
                        decider_dfa.append_action_step(self.case_match_actions[true_backref], still_matching)
            else:
                refers_to = sub_dfas[original_backreference[i]]
                decider_dfa.append_after(refers_to, sub_states=corresponding_finish_states[i], chain_actions=self.case_match_actions[original_backreference[i]])

        ProgramData.imbue(decider_dfa, DTAG.PARENT, self)

        if self.next is not None:
            decider_dfa.append_after(self.next.convert(current_error_handlers))
        
        return decider_dfa

class OptionalNode(ActionSinkNode):
    def __init__(self, sub_contents: Node):
        self.start_actions = []
        self.finish_actions = []
        self.next = None

        if isinstance(sub_contents, ActionSourceNode) and not isinstance(sub_contents, ActionNode):
            # What opens the body of a block (try, loop, foreach, if) is handed to whatever stands in front of the block: here, to
            # the bytes that decide that the optional is taken.
            opening_actions, sub_contents = sub_contents.adopt_actions_from()
            self.start_actions.extend(opening_actions)
        self.sub_contents = sub_contents

    def _set_next(self, next_node):
        self.next = next_node

    def get_next(self):
        return self.next

    def _adopt_actions(self, actions):
        if any(action.get_mode() == ActionMode.EACH_CHARACTER for action in actions):
            raise IllegalASTStateError("Each character action in optional makes no sense", self)

        for action in actions:
            if action.get_mode() == ActionMode.AT_START:
                self.start_actions.append(action)
            else:
                self.finish_actions.append(action)

    def convert(self, current_error_handlers):
        if self.sub_contents is None:
            raise IllegalDFAStateError("Empty optional body", self)

        sub_dfa = self.sub_contents.convert(current_error_handlers)
        if sub_dfa.starting_state in sub_dfa.accepting_states:
            raise IllegalDFAStateError("Ambigious path in optional: should use optional or go to next", sub_dfa.starting_state)
        if isinstance(sub_dfa.starting_state, DFProxyState):
            # Whether the optional is taken is decided by the next byte, which needs a state that matches something
            raise IllegalDFAStateError("An optional must begin with a match, not with a condition or yield", sub_dfa.starting_state)

        if sub_dfa.transitions_pointing_to(sub_dfa.starting_state):
            # The start state doubles as "skip the optional": what follows is merged into it. A body that can come back to its own
            # beginning (a wait restarting, a loop going round again) must not find that way out there: enter through a copy.
            entry_state = DFState()
            sub_dfa.add(entry_state)
            for trans in sub_dfa.starting_state.transitions:
                entry_state.transition(trans.copy(), collapse_else=False)
            sub_dfa.starting_state = entry_state

        sub_dfa.mark_accepting(sub_dfa.starting_state)

        # Add starting actions
        for trans in sub_dfa.starting_state.transitions:
            trans.attach(*self.start_actions)

        # If we need to, add a boring after thing
        if self.next is not None:
            sub_dfa.append_after(self.next.convert(current_error_handlers), chain_actions=self.finish_actions)
        else:
            sub_dfa.chain_actions_at_end(self.finish_actions)

        return sub_dfa

class LoopNode(ActionSinkNode, ActionSourceNode):
    def __init__(self, name):
        self.name = name
        self.next = None
        self.after_break_actions = []
        self.loop_start_actions = []
        self.child_node = None
        self.end_state = DFState()
        ProgramData.imbue(self.end_state, DTAG.PARENT, self)

        self.break_action = BreakAction(self)
        ProgramData.imbue(self, DTAG.NAME, f"loop node {name}" if name else "anonymous loop")

    def _set_next(self, next_node):
        self.next = next_node

    def get_next(self):
        return self.next

    def _adopt_actions(self, actions):
        if any(x.get_mode() != ActionMode.AT_FINISH for x in actions):
            raise IllegalASTStateError("Invalid action type for loop", self)

        self.after_break_actions.extend(actions)

    def adopt_actions_from(self):
        # This will place the loop start actions in the right place for the first iteration. We add them to all iteration transitions too.
        return self.loop_start_actions, self

    def get_break_handler(self):
        return BreakAction(self)

    def set_child(self, child: Node):
        if isinstance(child, ActionSourceNode):
            self.loop_start_actions, child = child.adopt_actions_from()
        self.child_node = child

    def convert(self, current_error_handlers):
        if self.child_node is None:
            raise IllegalDFAStateError("Empty loop body", self)

        parent_dfa = DFA()
        parent_dfa.add(self.end_state)
        parent_dfa.mark_accepting(self.end_state)

        if self.next:
            parent_dfa.append_after(self.next.convert(current_error_handlers))
        
        # First, create the sub_dfa 
        sub_dfa = self.child_node.convert(current_error_handlers)

        # don't mark it accepting yet

        should_try_to_append = False

        # Reroute all transitions with a BreakAction in them that corresponds to our break action to go to us immediately as an optimization.
        for transition in sub_dfa.transitions_that_do(self.break_action):
            transition.to(self.end_state)
            # what comes behind the break on this path (statements that follow the breaking clause / try body inside the loop) is not performed
            del transition.actions[transition.actions.index(self.break_action):]
            transition.actions.extend(self.after_break_actions)
            should_try_to_append = True

        # Check if any actions are break actions
        for transition in sub_dfa.all_transitions():
            for action in transition.actions:
                for subaction in action.all_subactions():
                    if subaction == self.break_action:
                        should_try_to_append = True

        if self.break_action in self.loop_start_actions:
            should_try_to_append = True
        else:
            for x in self.loop_start_actions:
                if self.break_action in x.all_subactions():
                    should_try_to_append = True
                    break

        # Verify that the accepting states are all distinct, and that no byte which continues the last statement of the body could also
        # start the next iteration (the same check append_after does when it joins two statements)
        loop_start = sub_dfa.starting_state
        starts_iteration, never_starts_iteration = set(), set()
        if isinstance(loop_start, DFProxyState):
            starts_iteration, never_starts_iteration = loop_start.equivalent_on_values()
        for accept_state in sub_dfa.accepting_states:
            for transition in accept_state.all_transitions():
                if transition.target in sub_dfa.accepting_states:
                    raise IllegalDFAStateConflictsError("Ambigious loop: should loop or continue matching", transition)
                if transition.error_handling:
                    continue
                continues_on = set(transition.on_values)
                if DFTransition.Else in continues_on:
                    continues_on.update(loop_start.compute_foreign_else_definition(accept_state))
                for symbol in continues_on:
                    if isinstance(loop_start, DFProxyState):
                        restart = None
                        ambiguous = symbol in starts_iteration or (DFTransition.Else in starts_iteration and symbol not in never_starts_iteration)
                    else:
                        restart = loop_start[symbol]
                        # (going on to the same state is the same thing only when nothing else tells the two readings apart: the way back
                        # to the start of the body performs what opens an iteration, and each transition what it carries)
                        ambiguous = restart is not None and not restart.error_handling and (
                            restart.target != transition.target or bool(self.loop_start_actions) or list(restart.actions) != list(transition.actions))
                    if ambiguous:
                        raise IllegalDFAStateConflictsError("Ambigious loop: should loop or continue matching", transition, *([restart] if restart is not None else []))

        # If there are error-handling transitions on the accept node, point them to the starting node as fallthrough (so that anything that _isn't_ getting matched by 
        # the last node gets forwarded to the start, looping). If there are no transitions on the final node, point everything to the start.
        for accept_state in sub_dfa.accepting_states:
            for trans in accept_state.transitions:
                if trans.error_handling:
                    trans.handles_else(False).fallthrough().to(sub_dfa.starting_state).attach(*self.loop_start_actions)
            if not any(DFTransition.Else in x.on_values for x in accept_state.transitions):
                # nothing (or only what continues the last statement) is handled here: everything else starts the next iteration
                accept_state[DFTransition.Else] = DFTransition(fallthrough=True).to(sub_dfa.starting_state).attach(*self.loop_start_actions)

        for state in sub_dfa.states:
            parent_dfa.add(state)

        parent_dfa.starting_state = sub_dfa.starting_state

        if self.next and not should_try_to_append:
            raise IllegalASTStateError("Unreachable states after loop", self, self.next)

        return parent_dfa

class TryExceptNode(ActionSinkNode, ActionSourceNode):
    def __init__(self, handles):
        self.handler_node = DFState()
        self.handles = handles
        self.after_actions = []
        self.incoming_handler_actions = []
        self.incoming_body_actions = []

        self.body = None
        self.handler = None

        self.next = None

    def adopt_actions_from(self):
        actions = self.incoming_body_actions
        return actions, self

    def get_handler(self):
        return self.handler_node

    def set_body(self, body):
        if isinstance(body, ActionSourceNode):
            self.incoming_body_actions, body = body.adopt_actions_from()
        self.body = body

    def set_handler(self, handler):
        if isinstance(handler, ActionSourceNode):
            self.incoming_handler_actions, handler = handler.adopt_actions_from()
        self.handler = handler

    def _adopt_actions(self, actions):
        if any(x.get_mode() != ActionMode.AT_FINISH for x in actions):
            raise IllegalASTStateError("Invalid action type following try-except", self)
            
        self.after_actions.extend(actions)

    def _set_next(self, next_node):
        self.next = next_node

    def get_next(self):
        return self.next

    def convert(self, current_error_handlers):
        if self.body is None:
            raise IllegalASTStateError("Empty try-except body", self)
        # Convert the main DFA to form the "sub-dfa"

        body_error_handlers = current_error_handlers.copy()
        body_error_handlers.update({x: self.handler_node for x in self.handles})

        sub_dfa: DFA = self.body.convert(body_error_handlers)

        # This _should_ have transitions going to the handler node. Add it to the tree now
        sub_dfa.add(self.handler_node)

        # If there _is_ a handler, add it after
        if self.handler is not None:
            handler_dfa = self.handler.convert(current_error_handlers)
            sub_dfa.append_after(handler_dfa, sub_states=[self.handler_node], chain_actions=self.incoming_handler_actions)
        else:
            # Otherwise, create a fallthrough dummy transition to hook up the handler actions.
            dummy_end_node = DFState()
            # And add the finish actions to everything that pointed at it
            self.handler_node.transition(DFTransition([DFTransition.Else], fallthrough=True).to(dummy_end_node).attach(*self.incoming_handler_actions))
            sub_dfa.add(dummy_end_node)
            sub_dfa.mark_accepting(dummy_end_node)

        # If there is a next node, append it
        if self.next is not None:
            sub_dfa.append_after(self.next.convert(current_error_handlers), chain_actions=self.after_actions)
        else:
            sub_dfa.chain_actions_at_end(self.after_actions)

        return sub_dfa

class ForeachNode(ActionSinkNode, ActionSourceNode):
    def __init__(self, child_node: Node, each_actions: List[Action]):
        self.each_actions = each_actions
        self.child_node = child_node
        self.after_actions: List[Action] = []
        self.incoming_body_actions: List[Action] = []
        self.next: Node = None

        if isinstance(child_node, ActionSourceNode):
            self.incoming_body_actions, self.child_node = child_node.adopt_actions_from()

    def _adopt_actions(self, actions):
        if any(x.get_mode() != ActionMode.AT_FINISH for x in actions):
            raise IllegalASTStateError("Invalid action type following foreach", self)
            
        self.after_actions.extend(actions)

    def adopt_actions_from(self):
        actions = self.incoming_body_actions
        return actions, self

    def _set_next(self, node):
        self.next = node

    def get_next(self):
        return self.next

    def convert(self, current_error_handlers):
        if self.child_node is None:
            raise IllegalASTStateError("Empty foreach body", self)

        # Generate the DFA for the content of the foreach
        sub_dfa: DFA = self.child_node.convert(current_error_handlers)

        # Visit all transitions contained therein, ignoring ones going to error handlers,
        # and attach our each eactions to them
        # We specifically do this _before_ trying to attach after actions / the next node
        ignored_targets = set(current_error_handlers.values())
        for state in sub_dfa.states:
            for transition in state.all_transitions():
                if transition.target in ignored_targets or transition.is_fallthrough:
                    continue
                if set(transition.on_values) == {DFTransition.End}:
                    continue # end-of-input is not a character
                transition.attach_for_this_byte(*self.each_actions)

        if self.next is not None:
            sub_dfa.append_after(self.next.convert(current_error_handlers), chain_actions=self.after_actions)
        else:
            sub_dfa.chain_actions_at_end(self.after_actions)

        return sub_dfa

class IfElseNode(ActionSinkNode, ActionSourceNode):
    def __init__(self, branches: List[DFCondition], branch_bodies: Dict[DFCondition, Node]):
        self.branches = branches 
        self.branch_bodies = branch_bodies
        self.branch_actions = {}

        self.after_actions = []
        self.next = None

        # If nonempty, we replace the if-node with a set of ConditionalActions
        self.equivalent_actions = []

        # Adopt all branch actions
        for condition in self.branches:
            if isinstance(self.branch_bodies[condition], ActionSourceNode):
                self.branch_actions[condition], self.branch_bodies[condition] = self.branch_bodies[condition].adopt_actions_from()
            else:
                self.branch_actions[condition] = []

        # Check if we can replace with an action-only node
        if all(x is None for x in self.branch_bodies.values()):
            for actions in self.branch_actions.values():
                for action in actions:
                    if not action.embeddable():
                        raise IllegalASTStateError("Unembeddable action inside action-only if/else node; place a match somewhere after the action?", action)
            self.equivalent_actions = [ConditionalAction(self.branches, self.branch_actions)]

    def _set_next(self, next_node):
        self.next = next_node

    def get_next(self):
        return self.next

    def adopt_actions_from(self):
        if self.equivalent_actions:
            return list(self.equivalent_actions), self.next
        else:
            return (), self

    def _adopt_actions(self, actions):
        if any(x.get_mode() != ActionMode.AT_FINISH for x in actions):
            raise IllegalASTStateError("Invalid action after if condition", self)

        self.after_actions.extend(actions)
        if self.equivalent_actions:
            self.equivalent_actions.extend(actions)

    def convert(self, current_error_handlers):
        # Generate condition dfa + start node
        dfa = DFA()
        ProgramData.imbue(dfa, DTAG.PARENT, self)
        cond_point = DFConditionPoint()
        dfa.add(cond_point)
        dfa.starting_state = cond_point

        sub_dfas = {x: y.convert(current_error_handlers) for x, y in self.branch_bodies.items() if y is not None}

        if any(y is None for y in self.branch_bodies.values()):
            dummy_target = DFState()
            dfa.add(dummy_target)
            dfa.mark_accepting(dummy_target)

        for x in self.branches:
            if x in sub_dfas:
                for i in sub_dfas[x].states:
                    dfa.add(i)
                    if i in sub_dfas[x].accepting_states:
                        dfa.mark_accepting(i)
                cond_point.transition(DFConditionalTransition(x).attach(*self.branch_actions[x]).to(sub_dfas[x].starting_state))
            else:
                cond_point.transition(DFConditionalTransition(x).attach(*self.branch_actions[x]).to(dummy_target))

        if self.next is not None:
            dfa.append_after(self.next.convert(current_error_handlers), chain_actions=self.after_actions)
        else:
            dfa.chain_actions_at_end(self.after_actions)
        return dfa

class MacroArgumentKind(enum.Enum):
    MACRO = 0
    OUT = 1
    MATCH = 2
    INTEXPR = 3
    HOOK = 4
    LOOP = 5
    FINISHCODE = 6
    YIELDCODE = 7

    EXPR = 10

class MacroArgument:
    def __init__(self, name: str, kind: MacroArgumentKind):
        self.name = name
        self.kind = kind

    def get_lookup_type(self):
        if self.kind in (MacroArgumentKind.MATCH, MacroArgumentKind.INTEXPR):
            return MacroArgumentKind.EXPR
        else:
            return self.kind

    def should_early_bind(self):
        """
        Should this argument be looked up immediately at macro entry, instead of just recording the parse tree for later use. Generally
        only valid for globally-scoped identifying arguments
        """

        return self.kind in (MacroArgumentKind.MACRO, MacroArgumentKind.OUT, MacroArgumentKind.HOOK, MacroArgumentKind.LOOP, MacroArgumentKind.FINISHCODE, MacroArgumentKind.YIELDCODE)
    
class BoundArgumentTree(lark.Tree):
    """
    A match/expr macro argument, together with the argument frames that were active where it was written.

    These arguments are expanded late (their meaning depends on where they are used), but names inside them still
    refer to the scope of the call site, not to whatever the called macro happens to name its own arguments.
    """

    def __init__(self, tree: lark.Tree, scope):
        super().__init__(tree.data, tree.children, tree.meta)
        self.scope = tuple(scope)

class Macro:
    def __init__(self, name_token: lark.Token, parse_tree: lark.Tree, arguments: List[MacroArgument]):
        self.name = name_token.value
        self.parse_tree = parse_tree
        self.arguments = arguments
        ProgramData.imbue(self, DTAG.SOURCE_LINE, name_token.line)
        ProgramData.imbue(self, DTAG.NAME, "macro " + self.name)

    def bind_arguments_for(self, input_trees: List[lark.Tree], parse_ctx: "ParseCtx"):
        bound_arguments = {}
        for argspec, value in zip(self.arguments, input_trees):
            allowed_types = {
                MacroArgumentKind.MACRO: ("identifier_const",),
                MacroArgumentKind.OUT: ("identifier_const",),
                MacroArgumentKind.HOOK: ("identifier_const",),
                MacroArgumentKind.LOOP: ("identifier_const",),
                MacroArgumentKind.FINISHCODE: ("identifier_const",),
                MacroArgumentKind.YIELDCODE: ("identifier_const",),
                MacroArgumentKind.MATCH: ("regex", "end_expr", "concat_expr", "string_const", "string_case_const", "binary_regex", "binary_string_const", "identifier_const"),
                MacroArgumentKind.INTEXPR: ("string_const", "bool_const", "number_const", "char_const", "identifier_const", *all_sum_expr_nodes)
            }[argspec.kind]
            if not argspec.should_early_bind() and value.data == "identifier_const":
                # A bare identifier may name a match/expr argument of the calling macro: substitute it now, in the caller's scope,
                # so that it is not looked up again (possibly finding itself) once the callee's frame is active -- and so that the
                # kind of what is actually passed gets checked.
                try:
                    value = parse_ctx._lookup_named_entity(MacroArgumentKind.EXPR, value.children[0])
                except UndefinedReferenceError:
                    pass
            if value.data not in allowed_types:
                raise IllegalParseTree("Invalid argument type for argument " + argspec.name, value)
            if argspec.should_early_bind():
                value = parse_ctx._lookup_named_entity(argspec.kind, value.children[0])
            if not argspec.should_early_bind() and not isinstance(value, BoundArgumentTree):
                value = BoundArgumentTree(value, parse_ctx.bound_argument_stack)
            bound_arguments[(argspec.get_lookup_type(), argspec.name)] = value
        return bound_arguments

class MacroInstance: # dummy object used to track nested macros for diagnostics
                     # todo: could probably rewrite the argument stack in terms of this
    def __init__(self, macro: Macro, parent: "Optional[MacroInstance]" = None):
        self.parent = parent
        self.macro = macro

    def __repr__(self):
        return f"MacroInstance({self.macro.name}, {self.parent!r})"

# =========
# PARSE CTX
# =========

# Output names become members of the generated state struct as they are: they must not be keywords of C or C++ (the header is
# meant to be usable from both), nor the macros of <stdbool.h> -- nor `inval`, which the generated end() defines as a macro
C_RESERVED_WORDS = frozenset("""
auto break case char const continue default do double else enum extern float for goto if inline int long register restrict return
short signed sizeof static struct switch typedef union unsigned void volatile while _Alignas _Alignof _Atomic _Bool _Complex _Generic
_Imaginary _Noreturn _Static_assert _Thread_local bool true false inval
alignas alignof and and_eq asm bitand bitor catch char8_t char16_t char32_t class compl concept consteval constexpr constinit const_cast
co_await co_return co_yield decltype delete dynamic_cast explicit export friend mutable namespace new noexcept not not_eq nullptr operator
or or_eq private protected public reinterpret_cast requires static_assert static_cast template this thread_local throw try typeid typename
using virtual wchar_t xor xor_eq
""".split())

class ParseCtx:
    def __init__(self, parse_tree: lark.Tree):
        self._parse_tree = parse_tree
        self.macros = {} # all macros, name --> AST
        self.state_object_spec = {}
        self.hooks = []
        self.ast = None
        self.start_actions = []
        self.generic_fail_state = DFState()

        self.exception_handlers = defaultdict(lambda: self.generic_fail_state)  # normal ErrorReason -> State
        self.break_handlers = {}      # "string name" -> lambda: Action
        self.innermost_break_handler = None  # just a lambda: Action
        
        self.bound_argument_stack: List[Dict[Tuple[MacroArgumentKind, str], lark.Tree]] = []
        self.active_macro: Optional[MacroInstance] = None

        self.yield_codes = []
        self.finish_codes = []
    
    @diagnoses_recursion_limit
    def parse(self):
        # Enumeration constants and result codes all become enumerators named <PROGRAM>_<...>: keep track of who produced which
        generated_enumerators = {x: None for x in ("OK", "FAIL", "DONE")}
        def claim_enumerator(generated_name, source):
            if generated_name in generated_enumerators:
                raise DuplicateDefinitionError("generated C enumerator", source, generated_name)
            generated_enumerators[generated_name] = source

        # Parse state_object_spec
        for out in self._parse_tree.find_data("out_decl"):
            out_obj = self._parse_out_decl(out)
            if out_obj.name in self.state_object_spec:
                raise DuplicateDefinitionError("output variable", out, out_obj.name)
            if out_obj.name in C_RESERVED_WORDS:
                raise IllegalParseTree("Output name is a reserved word in C or C++", out.children[1])
            if out_obj.holds_a(OutputStorageType.ENUM):
                for enum_value in out_obj.enum_values:
                    claim_enumerator(f"{out_obj.name.upper()}_{enum_value.upper()}", out)
            if out_obj.holds_a(OutputStorageType.ENUM):
                if any(x.upper() == out_obj.name.upper() for x in self.state_object_spec):
                    raise DuplicateDefinitionError("enum header name", out, out_obj.name.upper())
                if out_obj.name == "finish":
                    raise IllegalParseTree("Enumerations cannot be named 'finish'", out)
            self.state_object_spec[out_obj.name] = out_obj
        # Parse macros
        for macro in self._parse_tree.find_data("macro_decl"):
            macro_obj = Macro(macro.children[0], macro.children[2:], self._parse_macro_arguments(macro.children[1]))
            if macro_obj.name in self.macros:
                raise DuplicateDefinitionError("macro", macro, macro_obj.name)
            self.macros[macro_obj.name] = macro_obj

        for hook in self._parse_tree.find_data("hook_decl"):
            if hook.children[0].value in self.hooks:
                raise DuplicateDefinitionError("hook", hook.children[0], hook.children[0].value)
            self.hooks.append(hook.children[0].value)

        for code in self._parse_tree.find_data("code_decl"):
            if code.children[0].value == "yieldcode" and not ProgramData.do(ProgramFlag.YIELD_SUPPORT):
                raise IllegalParseTree("Yield support not enabled", code)

            target = {
                "yieldcode": self.yield_codes,
                "finishcode": self.finish_codes
            }[code.children[0].value]
            for i in code.children[1:]:
                val = i.value
                if val in target:
                    raise DuplicateDefinitionError("code", i, val)
                claim_enumerator(("YIELD_" if target is self.yield_codes else "FINISH_") + val, i)
                target.append(val)

        # Parse main
        parser_decl = next(self._parse_tree.find_data("parser_decl"))
        self.ast = self._parse_stmt_seq(parser_decl.children)

        if isinstance(self.ast, ActionSourceNode):
            self.start_actions, self.ast = self.ast.adopt_actions_from()

    def _lookup_named_entity(self, context: Union[MacroArgumentKind, Iterable[MacroArgumentKind]], from_tree: lark.Token):
        assert from_tree.type == "IDENTIFIER"
        name = from_tree.value

        if type(context) is not MacroArgumentKind:
            # An argument of the macro being expanded takes precedence over a global name of any of the kinds asked for
            for entry in self.bound_argument_stack[-1:]:
                for attempt in context:
                    if (attempt, name) in entry:
                        return entry[(attempt, name)], attempt
            for attempt in context:
                try:
                    return self._lookup_named_entity(attempt, from_tree), attempt
                except UndefinedReferenceError:
                    continue
            raise UndefinedReferenceError(None, from_tree)

        # check if it is an argument of the macro being expanded. Only the innermost frame counts: the body of a macro can refer to
        # its own arguments and to global names, not to the arguments of whichever macro happens to call it.
        for entry in self.bound_argument_stack[-1:]:
            if (context, name) in entry:
                return entry[(context, name)]
        # otherwise, try and find globally 
        if context not in [MacroArgumentKind.MACRO, MacroArgumentKind.LOOP, MacroArgumentKind.HOOK, MacroArgumentKind.OUT, MacroArgumentKind.FINISHCODE, MacroArgumentKind.YIELDCODE]:
            raise UndefinedReferenceError("named expression", from_tree)

        if context in (MacroArgumentKind.HOOK, MacroArgumentKind.FINISHCODE, MacroArgumentKind.YIELDCODE):
            storage = {
                MacroArgumentKind.HOOK: self.hooks,
                MacroArgumentKind.FINISHCODE: self.finish_codes,
                MacroArgumentKind.YIELDCODE: self.yield_codes
            }[context]

            if name not in storage:
                raise UndefinedReferenceError({
                    MacroArgumentKind.HOOK: "hook",
                    MacroArgumentKind.YIELDCODE: "yield code",
                    MacroArgumentKind.FINISHCODE: "finish code"
                }[context], from_tree)

            return name
        else:
            storage = {
                MacroArgumentKind.MACRO: self.macros,
                MacroArgumentKind.LOOP: self.break_handlers,
                MacroArgumentKind.OUT: self.state_object_spec,
            }[context]

            if name not in storage:
                raise UndefinedReferenceError({
                    MacroArgumentKind.MACRO: "macro",
                    MacroArgumentKind.OUT: "variable",
                    MacroArgumentKind.LOOP: "break target"
                }[context], from_tree)

            return storage[name]

    def _parse_in_argument_scope(self, parse_function, expr: BoundArgumentTree, *args, **kwargs):
        """
        Parse a match/expr macro argument with the argument frames of its call site active.
        """
        saved_stack = self.bound_argument_stack
        self.bound_argument_stack = list(expr.scope)
        try:
            return parse_function(lark.Tree(expr.data, expr.children, expr.meta), *args, **kwargs)
        finally:
            self.bound_argument_stack = saved_stack

    def _parse_macro_arguments(self, args: lark.Tree):
        if args.data == "macro_arg_empty":
            return []
        defined = set()
        parsed_args = []
        for i in args.children:
            if i.data == "macro_rescode_arg":
                name = i.children[1].value
                kind = {"yieldcode": MacroArgumentKind.YIELDCODE, "finishcode": MacroArgumentKind.FINISHCODE}[i.children[0].value]
            else:
                name = i.children[0].value
                kind = {
                    "macro_macro_arg": MacroArgumentKind.MACRO,
                    "macro_out_arg": MacroArgumentKind.OUT,
                    "macro_match_expr_arg": MacroArgumentKind.MATCH,
                    "macro_int_expr_arg": MacroArgumentKind.INTEXPR,
                    "macro_hook_arg": MacroArgumentKind.HOOK,
                    "macro_breaktgt_arg": MacroArgumentKind.LOOP,
                }[i.data]
            if name in defined:
                raise DuplicateDefinitionError("macro argument", i, name)
            parsed_args.append(MacroArgument(name, kind))
            defined.add(name)
        return parsed_args

    def _convert_char_const(self, char_const: str):
        if len(char_const) == 3:
            if ord(char_const[1]) > 0xff:
                # (as in strings and regexes: a literal spells bytes)
                raise IllegalParseTree("Character constant " + char_const + " is outside the byte range (use a number)")
            return char_const[1]
        else:
            escapes = {
                'n': '\n',
                'r': '\r',
                't': '\t',
                'b': '\b',
                '0': '\x00',
                '\'': '\'',
                '"': '"',
                '\\': '\\'
            }
            if char_const[2] not in escapes:
                # (as in strings: the letter itself is not what any of these spell elsewhere)
                raise IllegalParseTree("Unknown escape sequence \\" + char_const[2] + " in character constant " + char_const)
            return escapes[char_const[2]]

    # (no integer the language can use has this many digits; the interpreter refuses to convert decimal strings beyond a few thousand)
    MAX_INT_LITERAL_LENGTH = 100

    def _convert_int(self, text: str):
        if len(text) > self.MAX_INT_LITERAL_LENGTH:
            raise IllegalParseTree("Integer literal is too long: " + text[:20] + "...")
        sign = 1
        if text[0] == "+":
            text = text[1:]
        elif text[0] == "-":
            sign = -1
            text = text[1:]

        if text[0:2] == "0x":
            return sign * int(text[2:], base=16)
        elif text[0:2] == "0b":
            return sign * int(text[2:], base=2)
        else:
            return sign * int(text)

    def _convert_string(self, escaped_string: str):
        """
        Parse the string `escaped_string`, which is the direct token from lark (still with quotes and escapes)
        """

        contents = escaped_string[1:-1]
        result = ""
        i = 0
        while i < len(contents):
            if contents[i] != '\\':
                result += contents[i]
                i += 1
            else:
                i += 1
                if contents[i] == "x" or contents[i] == "u":
                    if contents[i] == "u":
                        raise IllegalParseTree("Unicode escapes are not supported in string " + escaped_string)
                    code = contents[i+1:i+3]
                    if len(code) != 2 or any(x not in string.hexdigits for x in code):
                        raise IllegalParseTree("Invalid \\x escape (expected two hex digits) in string " + escaped_string)
                    result += chr(int(code, base=16))
                    i += 3
                elif contents[i] not in "nrtb0\"\\":
                    raise IllegalParseTree("Unknown escape sequence \\" + contents[i] + " in string " + escaped_string)
                else:
                    result += {
                        'n': '\n',
                        'r': '\r',
                        't': '\t',
                        'b': '\b',
                        '0': '\x00',
                        '"': '"',
                        '\\': '\\'
                    }[contents[i]]
                    i += 1
        if any(ord(x) > 255 for x in result):
            # (one character stands for one byte everywhere a literal is used)
            raise IllegalParseTree("String literal contains characters outside the byte range (use \\x escapes) " + escaped_string)
        return result

    def _convert_binary_string(self, binary_string: str):
        """
        Parse the hex binary string (with quotes too)
        """

        groups = binary_string[1:-1].split()
        if any(len(group) % 2 != 0 or any(x not in string.hexdigits for x in group) for group in groups):
            raise ValueError("binary literal must consist of pairs of hex digits (blanks may separate them)")
        contents = "".join(groups)

        result = ""

        for word in zip(contents[::2], contents[1::2]):
            result += chr(int(word[0] + word[1], base=16))

        return result

    def _parse_out_decl(self, decl: lark.Tree) -> OutputStorage:
        """
        Parse an output declaration
        """

        type_obj = decl.children[0]
        name = decl.children[1].value
        if len(decl.children) == 3:
            if type_obj.data == "raw_type":
                raise IllegalParseTree("Default values are not allowed for raw types, set them manually if necessary.", decl.children[2])
            elif type_obj.data not in ["str_type", "unterm_str_type"]:
                default_value = self._parse_integer_expr(decl.children[2])
                if not default_value.is_literal():
                    raise IllegalParseTree("Default value for out-decl must be constant", decl.children[2])
            else:
                if decl.children[2].data == "string_const":
                    default_value = self._convert_string(decl.children[2].children[0].value)
                elif decl.children[2].data == "binary_string_const":
                    try:
                        default_value = self._convert_binary_string(self._without_suffix(decl.children[2].children[0]).value).encode('latin-1')
                    except ValueError as e:
                        raise IllegalParseTree(e.args[0], decl.children[2].children[0])
                else:
                    raise IllegalParseTree("Default value for string must be a string constant", decl.children[2])
        else:
            default_value = None

        if type_obj.data == "bool_type":
            return OutputStorage(OutputStorageType.BOOL, name, default_value=default_value)
        elif type_obj.data == "int_type":
            kwargs = {}
            for attr in type_obj.children:
                if attr.data == "signed_attr":
                    kwargs["int_signed"] = attr.children[0].value == "signed"
                elif attr.data == "width_attr":
                    kwargs["int_width"] = self._convert_int(attr.children[0].value)
                else:
                    raise NotImplementedError(attr)
            return OutputStorage(OutputStorageType.INT, name, default_value=default_value, **kwargs)
        elif type_obj.data == "enum_type":
            return OutputStorage(OutputStorageType.ENUM, name, default_value=default_value, enum_values=list(x.value for
                x in type_obj.children))
        elif type_obj.data in ("str_type", "unterm_str_type"):
            str_size = self._convert_int(type_obj.children[0].value)
            if str_size < 1:
                raise IllegalParseTree("String size must be at least 1", type_obj.children[0])
            return OutputStorage(OutputStorageType.STR, name, default_value=default_value, str_size=str_size, str_null=type_obj.data == "str_type")
        elif type_obj.data == "raw_type":
            return OutputStorage(OutputStorageType.RAW, name, raw_underlying=type_obj.children[0].value)
        else:
            raise NotImplementedError(type_obj.data)

    def _parse_math_expr(self, expr: lark.Tree, into_storage: OutputStorage=None):
        """
        Parse a math expr [(something)]
        """

        if isinstance(expr, BoundArgumentTree):
            return self._parse_in_argument_scope(self._parse_math_expr, expr, into_storage=into_storage)

        if expr.data == "math_num":
            return ProgramData.imbue(ProgramData.imbue(LiteralIntegerExpr(self._convert_int(expr.children[0].value)), DTAG.SOURCE_LINE, expr.meta.line), DTAG.SOURCE_COLUMN, expr.meta.column)
        elif expr.data == "math_char_const":
            return ProgramData.imbue(ProgramData.imbue(LiteralIntegerExpr(ord(self._convert_char_const(expr.children[0].value))), DTAG.SOURCE_LINE, expr.meta.line), DTAG.SOURCE_COLUMN, expr.meta.column)
        elif expr.data == "math_var":
            # Try to handle enums too (an argument of the macro being expanded takes precedence, as it does outside of brackets)
            is_argument = any((kind, expr.children[0].value) in entry for entry in self.bound_argument_stack[-1:] for kind in (MacroArgumentKind.EXPR, MacroArgumentKind.OUT))
            if not is_argument and into_storage is not None and into_storage.type == OutputStorageType.ENUM and expr.children[0].value in into_storage.enum_values:
                val = LiteralIntegerExpr(expr.children[0].value, OutputStorageType.ENUM, model_ref=into_storage)
                ProgramData.imbue(val, DTAG.SOURCE_LINE, expr.children[0].line)
                ProgramData.imbue(val, DTAG.SOURCE_COLUMN, expr.children[0].column)
                return val
            out_spec, kind = self._lookup_named_entity((MacroArgumentKind.EXPR, MacroArgumentKind.OUT), expr.children[0])
            if kind == MacroArgumentKind.EXPR:
                return self._parse_integer_expr(out_spec, into_storage=into_storage)
            return ProgramData.imbue(ProgramData.imbue(OutIntegerExpr(out_spec), DTAG.SOURCE_LINE, expr.meta.line), DTAG.SOURCE_COLUMN, expr.meta.column)
        elif expr.data in ["math_str_len", "math_str_index"]:
            out_spec = self._lookup_named_entity(MacroArgumentKind.OUT, expr.children[0])

            if not out_spec.holds_buflike():
                raise IllegalParseTree("Variable must be string", expr.children[0])

            if expr.data == "math_str_len":
                val = StringLengthIntegerExpr(out_spec)
            else:
                val = StringRefIntegerExpr(out_spec, self._parse_integer_expr(expr.children[1]))
            
            return ProgramData.imbue(val,
                    DTAG.SOURCE_LINE, expr.meta.line,
                    DTAG.SOURCE_COLUMN, expr.meta.column
            )
        elif expr.data == "builtin_math_var":
            ref = expr.children[0]
            if ref.value == "last":
                return ProgramData.imbue(ProgramData.imbue(LastCharIntegerExpr(), DTAG.SOURCE_LINE, expr.meta.line), DTAG.SOURCE_COLUMN, expr.meta.column)
            else:
                raise UndefinedReferenceError("builtin math variable", ref)
        elif expr.data == "sum_expr":
            return SumIntegerExpr([self._parse_integer_expr(x, into_storage=into_storage) for x in expr.children[::2]], [False, *(x.value == "-" for x in expr.children[1::2])])
        elif expr.data == "mul_expr":
            return MulIntegerExpr([self._parse_integer_expr(x, into_storage=into_storage) for x in expr.children[::2]], [MulIntegerExprOp.MUL, *(MulIntegerExprOp(x.value) for x in expr.children[1::2])])
        elif expr.data == "comp_expr":
            left = self._parse_integer_expr(expr.children[0])
            if isinstance(left, OutIntegerExpr):
                ref = left.ref
            else:
                ref = None
            return CompareIntegerExpr(left, self._parse_integer_expr(expr.children[2], into_storage=ref), CompareIntegerExprOp(expr.children[1].value))
        elif expr.data == "shift_expr":
            return BitShiftIntegerExpr(self._parse_integer_expr(expr.children[0], into_storage=into_storage), self._parse_integer_expr(expr.children[2], into_storage=into_storage), expr.children[1].value == "<<")
        elif expr.data in ["bit_or_expr", "bit_xor_expr", "bit_and_expr"]:
            op = {
                "bit_or_expr": BitwiseIntegerExprOp.OR,
                "bit_xor_expr": BitwiseIntegerExprOp.XOR,
                "bit_and_expr": BitwiseIntegerExprOp.AND,
            }[expr.data]
            return BitwiseIntegerExpr([self._parse_integer_expr(x, into_storage=into_storage) for x in expr.children], op)
        elif expr.data == "conjunction_expr":
            return ConjunctionIntegerExpr([self._parse_integer_expr(x, into_storage=into_storage) for x in expr.children])
        elif expr.data == "disjunction_expr":
            return DisjunctionIntegerExpr([self._parse_integer_expr(x, into_storage=into_storage) for x in expr.children])
        elif expr.data == "not_expr":
            return CompareIntegerExpr(self._parse_integer_expr(expr.children[0], into_storage=into_storage), LiteralIntegerExpr(False, OutputStorageType.BOOL), CompareIntegerExprOp.EQ)
        elif expr.data == "negate_expr":
            return SumIntegerExpr([LiteralIntegerExpr(0), self._parse_integer_expr(expr.children[0], into_storage=into_storage)], [False, True])
        else:
            raise IllegalParseTree("Invalid math expression", expr)

    def _parse_integer_expr(self, expr: lark.Tree, into_storage: OutputStorage=None) -> IntegerExpr:
        """
        Parse an integer type expr (also has bool/etc.)
        """

        if isinstance(expr, BoundArgumentTree):
            return self._parse_in_argument_scope(self._parse_integer_expr, expr, into_storage=into_storage)

        BANNED_TYPES = ["end_expr", "concat_expr", "regex", "string_const", "string_case_const", "binary_regex", "binary_string_const"]
        if expr.data in BANNED_TYPES:
            raise IllegalParseTree("String-typed value encountered for integer-typed expression", expr)

        if expr.data == "number_const":
            val = LiteralIntegerExpr(self._convert_int(expr.children[0].value))
            ProgramData.imbue(val, DTAG.SOURCE_LINE, expr.children[0].line)
            ProgramData.imbue(val, DTAG.SOURCE_COLUMN, expr.children[0].column)
            return val
        elif expr.data == "char_const":
            val = LiteralIntegerExpr(ord(self._convert_char_const(expr.children[0].value)))
            ProgramData.imbue(val, DTAG.SOURCE_LINE, expr.children[0].line)
            ProgramData.imbue(val, DTAG.SOURCE_COLUMN, expr.children[0].column)
            return val
        elif expr.data == "identifier_const":
            try:
                expr = self._lookup_named_entity(MacroArgumentKind.EXPR, expr.children[0])
                return self._parse_integer_expr(expr, into_storage=into_storage)
            except UndefinedReferenceError:
                pass

            if into_storage is None:
                raise IllegalParseTree("Undefined enumeration value, no into_storage", expr)

            if into_storage.type != OutputStorageType.ENUM:
                raise IllegalParseTree("Use of enumeration constant for non-enumeration type output (perhaps you meant to use []?)", expr)

            if expr.children[0].value not in into_storage.enum_values:
                raise UndefinedReferenceError("enumeration constant", expr.children[0])
            
            val = LiteralIntegerExpr(expr.children[0].value, OutputStorageType.ENUM, model_ref=into_storage)
            ProgramData.imbue(val, DTAG.SOURCE_LINE, expr.children[0].line)
            ProgramData.imbue(val, DTAG.SOURCE_COLUMN, expr.children[0].column)
            return val
        elif expr.data == "bool_const":
            if into_storage is None:
                result_type = OutputStorageType.BOOL
            else:
                if into_storage.type not in [OutputStorageType.BOOL, OutputStorageType.INT]:
                    raise IllegalParseTree("Use of boolean expression in non integral-type", expr)
                result_type = into_storage.type

            try:
                return ProgramData.imbue(ProgramData.imbue(LiteralIntegerExpr({"true": 1, "false": 0}[expr.children[0].value], result_type), DTAG.SOURCE_LINE, expr.meta.line), DTAG.SOURCE_COLUMN, expr.meta.column)
            except KeyError as e:
                raise UndefinedReferenceError("boolean constant", expr.children[0]) from e
        elif expr.data in all_sum_expr_nodes:
            return self._parse_math_expr(expr, into_storage)
        else:
            raise IllegalParseTree("Invalid expression in integer expr", expr)


    def _without_suffix(self, literal: lark.Token) -> lark.Token:
        """
        The string part of a literal token that carries a suffix ("..."i, "..."b), at the same position
        """

        return literal.update(value=literal.value[:-1])

    def _parse_match_expr(self, expr: lark.Tree) -> Match:
        """
        Parse a match expression into a match object
        """
        if isinstance(expr, BoundArgumentTree):
            return self._parse_in_argument_scope(self._parse_match_expr, expr)
        if expr.data in ["string_const", "binary_string_const"]:
            actual_content = expr.children[0] if expr.data == "string_const" else self._without_suffix(expr.children[0])
            if expr.data == "string_const":
                match = DirectMatch(self._convert_string(actual_content.value))
            else:
                try:
                    match = DirectMatch(self._convert_binary_string(actual_content.value))
                except ValueError as e:
                    raise IllegalParseTree(e.args[0], actual_content)
                ProgramData.imbue(match, DTAG.NAME, f"binary match {expr.children[0].value}")
            if not match.match_contents:
                raise IllegalParseTree("Cannot match an empty string", actual_content)
            ProgramData.imbue(match, DTAG.SOURCE_LINE, actual_content.line)
            ProgramData.imbue(match, DTAG.SOURCE_COLUMN, actual_content.column)
            return match
        elif expr.data == "string_case_const":
            actual_content = self._without_suffix(expr.children[0])
            match = CaseDirectMatch(self._convert_string(actual_content.value))
            if not match.match_contents:
                raise IllegalParseTree("Cannot match an empty string", actual_content)
            ProgramData.imbue(match, DTAG.SOURCE_LINE, actual_content.line)
            ProgramData.imbue(match, DTAG.SOURCE_COLUMN, actual_content.column)
            return match
        elif expr.data == "regex":
            match = RegexMatch(expr)
            ProgramData.imbue(match, DTAG.SOURCE_LINE, expr.meta.line)
            ProgramData.imbue(match, DTAG.SOURCE_COLUMN, expr.meta.column)
            return match
        elif expr.data == "binary_regex":
            match = BinaryRegexMatch(expr)
            ProgramData.imbue(match, DTAG.SOURCE_LINE, expr.meta.line)
            ProgramData.imbue(match, DTAG.SOURCE_COLUMN, expr.meta.column)
            return match
        elif expr.data == "end_expr":
            if not ProgramData.do(ProgramFlag.EOF_SUPPORT):
                raise IllegalParseTree("end match but EOF support is not enabled", expr)
            match = EndMatch()
            ProgramData.imbue(match, DTAG.SOURCE_LINE, expr.meta.line)
            ProgramData.imbue(match, DTAG.SOURCE_COLUMN, expr.meta.column)
            return match
        elif expr.data == "concat_expr":
            return ConcatMatch(list(self._parse_match_expr(x) for x in expr.children))
        elif expr.data == "identifier_const":
            return self._parse_match_expr(self._lookup_named_entity(MacroArgumentKind.EXPR, expr.children[0]))
        else:
            raise IllegalParseTree("Invalid expression in match expression context", expr)

    def _parse_assign_stmt(self, stmt: lark.Tree, is_append) -> Node:
        """
        Parse an assignment into its underlying action
        """

        # Resolve the target
        targeted = self._lookup_named_entity(MacroArgumentKind.OUT, stmt.children[0])

        if targeted.holds_buflike() and is_append:
            # Handle arguments
            if stmt.children[1].data == "identifier_const":
                sub_expr = self._lookup_named_entity(MacroArgumentKind.EXPR, stmt.children[1].children[0])
            else:
                sub_expr = stmt.children[1]
            # Check if this is a math expression (only valid append type other than match)
            if sub_expr.data in all_sum_expr_nodes:
                # Create an AppendCharTo action
                return ActionNode(AppendCharTo(self.exception_handlers[ErrorReasons.OUT_OF_SPACE], self._parse_math_expr(sub_expr), targeted))
            # Create an append expression
            match_node = MatchNode(self._parse_match_expr(sub_expr))
            match_node.match.attach(AppendTo(self.exception_handlers[ErrorReasons.OUT_OF_SPACE], targeted))
            return match_node
        elif targeted.type == OutputStorageType.STR:
            # Handle arguments
            if stmt.children[1].data == "identifier_const":
                sub_expr = self._lookup_named_entity(MacroArgumentKind.EXPR, stmt.children[1].children[0])
            else:
                sub_expr = stmt.children[1]

            if sub_expr.data != "string_const":
                raise IllegalParseTree("String assignment only supports string constants, did you mean +=?", sub_expr)
            result = self._convert_string(sub_expr.children[0].value)
            if len(result) == 0 and ProgramData.do(ProgramFlag.USE_DELETE_FOR_EMPTY_STRING):
                return ActionNode(DeleteBuf(targeted))
            return ActionNode(SetToStr(result, targeted))
        elif not is_append:
            if targeted.type == OutputStorageType.RAW:
                raise IllegalParseTree("Raw types only support append expressions, did you mean +=?", stmt.children[1])
            return ActionNode(SetTo(self._parse_integer_expr(stmt.children[1], targeted), targeted))
        else:
            raise IllegalParseTree("Only strings and raw outputs can be appended to, did you mean =?", stmt.children[1])

    def _parse_case_clause(self, clause: lark.Tree):
        result_set = set()
        target_dfa = None
        
        offset = None 

        for j, predicate in enumerate(clause.children):
            if predicate.data == "else_predicate":
                result_set.add(None)
            elif predicate.data == "expr_predicate":
                result_set.add(self._parse_match_expr(predicate.children[0]))
            else:
                offset = j
                break

        if offset is not None:
            target_dfa = self._parse_stmt_seq(clause.children[offset:])

        return frozenset(result_set), target_dfa

    def _add_case_clause(self, case_blocks, clause: lark.Tree):
        labels, body = self._parse_case_clause(clause)
        # every else claims the same inputs: a second one would silently replace (or be replaced by) the first
        if None in labels and any(None in other for other in case_blocks):
            raise IllegalParseTree("More than one else clause in a case statement", clause)
        case_blocks[labels] = body
        return labels

    def _parse_macro_call(self, lark_node_for_error: lark.Tree, macro: Macro, arguments: List[lark.Tree]):
        if len(arguments) != len(macro.arguments):
            raise IllegalParseTree("Incorrect number of arguments", lark_node_for_error)
        # Macros are expanded in place, so a macro that (eventually) calls itself would never stop expanding.
        depth, instance = 0, self.active_macro
        while instance is not None:
            depth, instance = depth + 1, instance.parent
        if depth >= 64:
            raise IllegalParseTree("Macro expansion nested too deeply (recursive macro?)", lark_node_for_error)
        self.bound_argument_stack.append(
            macro.bind_arguments_for(arguments, self)
        )
        self.active_macro = ProgramData.imbue(
                MacroInstance(macro, self.active_macro),
                DTAG.SOURCE_LINE, lark_node_for_error.meta.line,
                DTAG.SOURCE_COLUMN, lark_node_for_error.meta.column
        )
        node = self._parse_stmt_seq(macro.parse_tree)
        if node is not None:
            ProgramData.imbue(node, DTAG.PARENT, macro)
        del self.bound_argument_stack[-1]
        self.active_macro = self.active_macro.parent
        return node

    def _parse_stmt(self, stmt: lark.Tree) -> Node:
        """
        Parse a statement into a node
        """
        if stmt.data == "match_stmt":
            return MatchNode(self._parse_match_expr(stmt.children[0]))
        elif stmt.data == "wait_stmt":
            return MatchNode(WaitMatch(self._parse_match_expr(stmt.children[0])))
        elif stmt.data == "call_stmt":
            referenced, kind = self._lookup_named_entity((MacroArgumentKind.MACRO, MacroArgumentKind.HOOK), stmt.children[0])
            if kind == MacroArgumentKind.MACRO:
                return self._parse_macro_call(stmt, referenced, stmt.children[1:])
            else:
                return ActionNode(ProgramData.imbue(ProgramData.imbue(CallHook(referenced), DTAG.SOURCE_LINE, stmt.meta.line), DTAG.SOURCE_COLUMN, stmt.meta.column))
        elif stmt.data == "finish_stmt":
            act = FinishAction()
            ProgramData.imbue(act, DTAG.SOURCE_LINE, stmt.meta.line)
            ProgramData.imbue(act, DTAG.SOURCE_COLUMN, stmt.meta.column)
            return ActionNode(act)
        elif stmt.data == "custom_finish_stmt":
            act = CustomFinishAction(self._lookup_named_entity(MacroArgumentKind.FINISHCODE, stmt.children[0]))
            ProgramData.imbue(act, DTAG.SOURCE_LINE, stmt.meta.line)
            ProgramData.imbue(act, DTAG.SOURCE_COLUMN, stmt.meta.column)
            return ActionNode(act)
        elif stmt.data == "custom_yield_stmt":
            if not ProgramData.do(ProgramFlag.YIELD_SUPPORT):
                raise IllegalParseTree("Yield support not enabled", stmt)
            act = CustomYieldAction(self._lookup_named_entity(MacroArgumentKind.YIELDCODE, stmt.children[0]))
            ProgramData.imbue(act, DTAG.SOURCE_LINE, stmt.meta.line)
            ProgramData.imbue(act, DTAG.SOURCE_COLUMN, stmt.meta.column)
            return InterruptableActionNode(act)
        elif stmt.data == "break_stmt":
            if stmt.children:
                act = self._lookup_named_entity(MacroArgumentKind.LOOP, stmt.children[0])
            else:
                act = self.innermost_break_handler
            if act is None:
                raise IllegalParseTree("Break outside of loop", stmt)
            else:
                act = act()
            ProgramData.imbue(act, DTAG.SOURCE_LINE, stmt.meta.line)
            ProgramData.imbue(act, DTAG.SOURCE_COLUMN, stmt.meta.column)
            return ActionNode(act)
        elif stmt.data == "delete_stmt":
            targeted = self._lookup_named_entity(MacroArgumentKind.OUT, stmt.children[0])
            
            act = DeleteBuf(targeted)
            return ProgramData.imbue(ActionNode(act),
                DTAG.SOURCE_LINE, stmt.meta.line,
                DTAG.SOURCE_COLUMN, stmt.meta.column
            )
        elif stmt.data in ("assign_stmt", "append_stmt"):
            return ProgramData.imbue(self._parse_assign_stmt(stmt, stmt.data == "append_stmt"), DTAG.SOURCE_LINE, stmt.meta.line, DTAG.SOURCE_COLUMN, stmt.meta.column)
        elif stmt.data == "case_stmt":
            # Find all of the matches
            case_blocks = {}
            for clause in stmt.children:
                self._add_case_clause(case_blocks, clause)
            return ProgramData.imbue(ProgramData.imbue(CaseNode(case_blocks), 
                DTAG.SOURCE_LINE, stmt.meta.line),
                DTAG.SOURCE_COLUMN, stmt.meta.column
            )
        elif stmt.data == "greedy_case_stmt":
            case_blocks = {}
            priorities = {}
            for block in stmt.children:
                if block.data == "case_clause":
                    self._add_case_clause(case_blocks, block)
                else:
                    for clause in block.children[1:]:
                        priorities[self._add_case_clause(case_blocks, clause)] = self._convert_int(block.children[0].value)

            return ProgramData.imbue(ProgramData.imbue(CaseNode(case_blocks, greedy=True, priorities=priorities), 
                DTAG.SOURCE_LINE, stmt.meta.line),
                DTAG.SOURCE_COLUMN, stmt.meta.column
            )

        elif stmt.data == "if_stmt":
            conditions_ordered = []
            condition_map = {}
            for condition_tree in stmt.children:
                if condition_tree.data == "else_condition":
                    condition = ElseCondition()
                    condition_map[condition] = self._parse_stmt_seq(condition_tree.children)
                else:
                    condition = IntegerCondition(self._parse_integer_expr(condition_tree.children[0]))
                    condition_map[condition] = self._parse_stmt_seq(condition_tree.children[1:])

                ProgramData.imbue(condition,
                    DTAG.SOURCE_LINE, condition_tree.meta.line,
                    DTAG.SOURCE_COLUMN, condition_tree.meta.column
                )
                conditions_ordered.append(condition)
            if not isinstance(conditions_ordered[-1], ElseCondition):
                conditions_ordered.append(ElseCondition())
                condition_map[conditions_ordered[-1]] = None
            return ProgramData.imbue(
                IfElseNode(conditions_ordered, condition_map),
                DTAG.SOURCE_LINE, stmt.meta.line,
                DTAG.SOURCE_COLUMN, stmt.meta.column
            )
        elif stmt.data == "optional_stmt":
            return OptionalNode(self._parse_stmt_seq(stmt.children))
        elif stmt.data == "loop_stmt":
            loop_name = None
            statements = stmt.children[:]
            if len(stmt.children) and isinstance(stmt.children[0], lark.Token) and stmt.children[0].type == "IDENTIFIER":
                loop_name = stmt.children[0].value
                statements = stmt.children[1:]
            loop_node = LoopNode(loop_name)
            previous_break = self.innermost_break_handler
            # (a name is visible inside the body of its loop, nowhere else: statements are parsed back to front, so an entry left behind
            # would be found by the statements in front of the loop, and a nested loop of the same name would keep hiding the outer one)
            names_another_loop = loop_name in self.break_handlers
            previous_named_break = self.break_handlers.get(loop_name)
            self.break_handlers[loop_name] = loop_node.get_break_handler
            self.innermost_break_handler = loop_node.get_break_handler
            child_node = self._parse_stmt_seq(statements)
            self.innermost_break_handler = previous_break
            if names_another_loop:
                self.break_handlers[loop_name] = previous_named_break
            else:
                self.break_handlers.pop(loop_name, None)
            loop_node.set_child(child_node)
            return ProgramData.imbue(loop_node,
                DTAG.SOURCE_LINE, stmt.meta.line,
                DTAG.SOURCE_COLUMN, stmt.meta.column)
        elif stmt.data == "try_stmt":
            catch_block = stmt.children[-1]
            # try to see if there are options, otherwise use all
            catch_block_stmts = catch_block.children[:]
            catch_handles = set(ErrorReasons)

            if catch_block.children and catch_block.children[0].data == "catch_options":
                catch_handles = set()
                catch_block_stmts = catch_block.children[1:]

                for option in catch_block.children[0].children:
                    try:
                        catch_handles.add(ErrorReasons(option.value))
                    except ValueError as e:
                        raise UndefinedReferenceError("error type", option) from e

            body_block_stmts = stmt.children[:-1]
            try_node = TryExceptNode(catch_handles)

            prior_error_reasons = self.exception_handlers.copy()
            self.exception_handlers.update({x: try_node.get_handler() for x in catch_handles})
            
            try_node.set_body(self._parse_stmt_seq(body_block_stmts))

            # The catch block is not protected by its own try (see also TryExceptNode.convert)
            self.exception_handlers = prior_error_reasons

            try_node.set_handler(self._parse_stmt_seq(catch_block_stmts))

            return try_node
        elif stmt.data == "foreach_stmt":
            action_block = stmt.children[-1]
            contents     = stmt.children[:-1]

            content_node = self._parse_stmt_seq(contents)
            action_node  = self._parse_stmt_seq(action_block.children)

            if not isinstance(action_node, ActionSourceNode):
                raise IllegalASTStateError("Invalid statement in foreach actions; must only be an action source", action_node)

            each_actions, action_node = action_node.adopt_actions_from()
            if action_node is not None:
                raise IllegalASTStateError("Invalid statement in foreach actions; must only be action source with no DFA", action_node)

            return ProgramData.imbue(
                ForeachNode(content_node, each_actions),
                DTAG.SOURCE_LINE, stmt.meta.line,
                DTAG.SOURCE_COLUMN, stmt.meta.column)
        else:
            raise IllegalParseTree("Unknown statement", stmt)

    def _parse_stmt_seq(self, stmts: List[lark.Tree]) -> Node:
        """
        Parse a set of statements into one big node.

        Also, this is where we associate nodes with their containing macro.
        """

        next_node = None
        for stmt in reversed(stmts):
            node = self._parse_stmt(stmt)
            if node is None:
                continue # a call of a macro whose body is empty
            if self.active_macro and ProgramData.lookup(node, DTAG.MACRO_INSTANCE, recurse_upwards=False, recurse_downwards=False) is None:
                node = ProgramData.imbue(node, DTAG.MACRO_INSTANCE, self.active_macro)
            if node.get_next() is not None:
                # We need to find the actual end
                end_node = node
                while end_node.get_next() is not None:
                    end_node = end_node.get_next()
                end_node.set_next(next_node)
            else:
                node.set_next(next_node)
            next_node = node
        return next_node

class DfaCompileCtx:
    def __init__(self, parse_ctx: ParseCtx):
        self.state_object_spec = parse_ctx.state_object_spec
        self.hooks = parse_ctx.hooks
        self.finish_codes = parse_ctx.finish_codes
        self.yield_codes = parse_ctx.yield_codes
        self.ast = parse_ctx.ast
        self.start_actions = parse_ctx.start_actions
        self.generic_fail_state = parse_ctx.generic_fail_state
        self.dfa = None

    def _optimize_remove_inaccessible(self):
        if not ProgramData.do(ProgramFlag.REMOVE_INACCESIBLE_STATES):
            return 0
        # The start actions sit on no transition, but they can send the machine somewhere too (an append that overflows in start())
        start_action_targets = [target for action in self.start_actions for subaction in action.all_subactions() for target in subaction.get_target_override_targets()]
        accessible = set(self.dfa.dfs(also_from=start_action_targets))
        mod = 0
        for i in self.dfa.states.copy():
            if i not in accessible:
                mod += 1
                self.dfa.states.remove(i)
        dprint[ProgramFlag.VERBOSE_OPTIMIZE_RESULTS]("removed {} nonaccessible".format(mod))
        return mod

    def _optimize_minimize_dfa(self):
        # TODO: make this use Hopcroft's algorithm or something similar
        # 
        # on hold because the necessary logic for dealing with actions is painful
        return 0

    def _optimize_simplify_transition_matches(self):
        """
        Simplify transitions that match overlapping symbols.
        e.g.: () ---a, else----> () ==> () ---else----> ()
        """

        mod = 0
        if not ProgramData.do(ProgramFlag.SIMPLIFY_ELSE_CONDITIONS):
            return 0

        for state in self.dfa.states:
            for transition in state.transitions:
                if len(transition.on_values) > 1 and DFTransition.Else in transition.on_values:
                    dprint[ProgramFlag.VERBOSE_SIMPLIFY_TM]("simplfying {} with Else".format(transition))
                    transition.on_values = [DFTransition.Else]
                    mod += 1

        dprint[ProgramFlag.VERBOSE_OPTIMIZE_RESULTS]("simplified {} transitions".format(mod))
        return mod

    def _optimize_shortcircuit_fallthroughs(self):
        """
        Simplify fallthrough transitions such as:

        a -=-=-> b -<h>-> c

        to just

        a --<h>-->c

        by following all transitions pointing at fallthrough transitions. We also impose a limit such that if a transition to be shortcircuited is referred to by enough
        other states (and has at least one action) we won't replace it.

        Currently, we don't handle action side effect since there's no good way to retarget those right now.
        """

        if not ProgramData.do(ProgramFlag.SHORTCIRCUIT_FALLTHROUGHS):
            return 0

        # Count all transitions
        ignore_map_counter = Counter()
        for transition in self.dfa.all_transitions():
            ignore_map_counter[(frozenset(transition.on_values), transition.target)] += 1

        mod = 0

        all_transitions = list(self.dfa.all_transitions(include_states=True))

        for orig_state, transition in all_transitions:
            if not transition.is_fallthrough:
                continue

            # Check if the target has a matching fallthrough
            if isinstance(transition.target, DFProxyState) and not transition.target.can_eliminate() or isinstance(orig_state, DFProxyState) and not orig_state.can_eliminate(): continue

            # Never bypass an accepting state: being in it is observable (DONE from feed/end)
            if transition.target in self.dfa.accepting_states: continue

            # The merged transition consumes its byte, so an action on this one that may leave early (a break under an if, ...)
            # would take that byte with it; on the fallthrough it leaves it for whatever comes next.
            if any(x.get_target_override_mode() != ActionOverrideMode.NONE for x in transition.actions): continue

            effective = set(transition.on_values)
            if DFTransition.Else in transition.on_values:
                effective.update(transition.target.compute_foreign_else_definition(orig_state))

            next_target = transition.target[effective]

            if next_target is None or next_target.is_fallthrough:
                continue

            # (see the second half of this pass: an early return and an action that may leave without consuming don't mix on one transition)
            combined_actions = [*transition.actions, *next_target.actions]
            if any(x.may_return_early() for x in combined_actions) and any(x.get_target_override_mode() == ActionOverrideMode.MAY_GOTO_TARGET for x in combined_actions):
                continue

            # A yield on this fallthrough happens before the byte is consumed and nothing is performed behind it on its transition: merged, it would be
            # reported a byte late and the actions of the consuming transition would never run.
            if any(x.may_return_early() for x in transition.actions):
                continue

            # Are there actions? If so, does this violate the threshold
            if len(next_target.actions) > 0:
                max_count = ProgramData.option(ProgramOption.MAX_SHORTCIRCUIT_FALLTHROUGH) - ProgramData.option(ProgramOption.MAX_SHORTCIRCUIT_ACTION_PENALTY)*(len(next_target.actions)-1)
                if ignore_map_counter[(frozenset(next_target.on_values), next_target.target)] > max_count:
                    continue

            # Shortcircuit the transition
            if next_target.error_handling:
                transition.handles_else()

            transition.attach(*next_target.actions)
            transition.to(next_target.target)
            transition.fallthrough(False)

            mod += 1

        dprint[ProgramFlag.VERBOSE_OPTIMIZE_RESULTS]("shortcircuited {} transitions".format(mod))

        mod2 = 0

        # Now, we'll try to remove "dummy states" -- ones that _only_ have an Else fallthrough on them.
        all_transitions = list(self.dfa.all_transitions(include_states=True))
        for orig_state, transition in all_transitions:
            if isinstance(transition.target, DFProxyState) and not transition.target.can_eliminate() or isinstance(orig_state, DFProxyState) and not orig_state.can_eliminate(): continue

            # Never bypass an accepting state: being in it is observable (DONE from feed/end)
            if transition.target in self.dfa.accepting_states: continue

            if len(transition.target.transitions) != 1 or DFTransition.Else not in transition.target.transitions[0].on_values:
                continue

            to_replace = transition.target.transitions[0]

            if not to_replace.is_fallthrough:
                continue

            # A step that leads back to its own state leaves nothing to bypass (retargeted, the transition would point where it points already,
            # and this pass would report progress for ever): the cycle is the business of _verify_fallthrough_loop.
            if to_replace.target is transition.target:
                continue

            # An action that returns early (a yield) makes the generated code advance the input before the actions of the transition run.
            # Merged with an action that may leave without consuming (an append that overflows, a break under an if) that would skip a byte.
            combined_actions = [*transition.actions, *to_replace.actions]
            if any(x.may_return_early() for x in combined_actions) and any(x.get_target_override_mode() == ActionOverrideMode.MAY_GOTO_TARGET for x in combined_actions):
                continue

            # Nothing is performed behind an action that returns early: it has to stay the last one of its transition.
            if any(x.may_return_early() for x in transition.actions):
                continue

            if len(to_replace.actions) > 0:
                max_count = ProgramData.option(ProgramOption.MAX_SHORTCIRCUIT_FALLTHROUGH) - ProgramData.option(ProgramOption.MAX_SHORTCIRCUIT_ACTION_PENALTY)*(len(to_replace.actions)-1)
                if ignore_map_counter[(frozenset(to_replace.on_values), to_replace.target)] > max_count:
                    continue

            # Shortcircuit the transition. (It keeps its own error mark: it still consumes what it consumed for the reason it did; the mark of
            # the step behind it -- which a yield that ends a block carries without being an error -- says nothing about that.)
            transition.attach(*to_replace.actions)
            transition.to(to_replace.target)

            mod2 += 1

        dprint[ProgramFlag.VERBOSE_OPTIMIZE_RESULTS]("removed {} dummy transitions".format(mod2))
        return mod + mod2

    def _verify_fallthrough_loop(self):
        """
        Check if any transitions pointing to their own state are fallthrough, which is invalid
        since it would cause an infinite loop
        """

        for state in self.dfa.states:
            for transition in state.transitions:
                overflowing = []
                if transition.is_fallthrough:
                    symbols = transition.on_values
                elif DFTransition.End in transition.on_values and not transition.error_handling:
                    # a matched `end` consumes nothing either: end() goes on from its target with end-of-input still ahead
                    symbols = [DFTransition.End]
                else:
                    # An appended match that does not fit leaves for its out-of-space handler with the byte still to be consumed. Back here with that
                    # byte, and no room made in between, it cannot fit either.
                    overflowing = [sub for action in transition.actions for sub in action.all_subactions() if isinstance(sub, AppendTo)]
                    if not overflowing:
                        continue
                    symbols = transition.on_values

                # How many bytes the buffer that did not fit is known to have room for is followed along the way: none to begin with; a delete or a
                # constant assignment makes some (only where it is performed whatever the outputs hold: not under an if), every character appended
                # behind it takes one again. Back here with none, the byte cannot fit either.
                storage = overflowing[0].into_storage if overflowing and all(append.into_storage is overflowing[0].into_storage for append in overflowing) else None
                if storage is not None and storage.holds_a(OutputStorageType.STR):
                    capacity = storage.effective_string_size()
                elif storage is not None and storage.holds_a(OutputStorageType.RAW):
                    # (as many bytes as the C type has, where that is known; the overflow test compares with sizeof)
                    capacity = CodegenCtx._get_maxval_hint_for_raw_type(storage.raw_underlying) or 1 << 30
                else:
                    capacity = 1 << 30

                def room_behind(step, room):
                    for action in step.actions:
                        if storage is None:
                            break
                        if isinstance(action, DeleteBuf) and action.into_storage is storage:
                            room = capacity
                        elif isinstance(action, SetToStr) and action.into_storage is storage:
                            room = capacity - len(action.value_expr)
                        else:
                            room -= sum(1 for sub in action.all_subactions() if isinstance(sub, AppendCharTo) and sub.into_storage is storage)
                    return max(room, 0)

                def stays_in_place(t):
                    return t.is_fallthrough or (symbols == [DFTransition.End] and DFTransition.End in t.on_values and not t.error_handling)

                def leads_to(transition):
                    # where taking the transition can leave the machine: wherever its actions may send it (a break, also under an if)
                    # and, unless one of them always does, its own target
                    targets = []
                    for x in transition.actions:
                        if x.get_target_override_mode() != ActionOverrideMode.NONE:
                            targets.extend(x.get_target_override_targets())
                        if x.get_target_override_mode() in [ActionOverrideMode.ALWAYS_GOTO_OTHER, ActionOverrideMode.ALWAYS_GOTO_UNDEFINED]:
                            return targets
                    return targets + [transition.target]

                def visit(target, symbol, room):
                    if (target, room) not in visited:
                        visited.add((target, room))
                        aux(target, symbol, room)

                def aux(x, symbol, room):
                    if isinstance(x, DFConditionPoint):
                        steps = x.transitions
                    else:
                        real_target = x[symbol]
                        steps = [real_target] if real_target and stays_in_place(real_target) else []
                        if real_target and not steps and overflowing and room == 0:
                            # another appended match into the buffer that is still full: the byte does not fit there either, and is handed on
                            # to that append's handler
                            for append in (sub for action in real_target.actions for sub in action.all_subactions() if isinstance(sub, AppendTo) and sub.into_storage is storage):
                                for handler in append.get_target_override_targets():
                                    visit(handler, symbol, room)
                    for step in steps:
                        behind = room_behind(step, room) if overflowing else 0
                        for target in leads_to(step):
                            visit(target, symbol, behind)

                # The byte that is not consumed is one byte: each symbol of the transition is followed on its own (the states on the way may
                # well treat the symbols differently -- asked about all of them at once they have no single answer, and the walk would end there)
                for symbol in symbols:
                    visited = set()
                    if overflowing:
                        for handler in [target for append in overflowing for target in append.get_target_override_targets()]:
                            visit(handler, symbol, 0)
                    else:
                        aux(state, symbol, 0)

                    if (state, 0) in visited:
                        raise IllegalDFAStateError("Infinite loop due to self-referential fallthrough", transition)
        

    @diagnoses_recursion_limit
    def compile(self):
        """
        Convert the AST into a (potentially optimized) DFA.
        """

        if self.ast is None:
            raise IllegalASTStateError("The parser does not match any input (it consists only of actions)", *self.start_actions)
        self.dfa = self.ast.convert(defaultdict(lambda: self.generic_fail_state))
        self.dfa.add(self.generic_fail_state)

        while self._optimize_remove_inaccessible() + self._optimize_simplify_transition_matches() + self._optimize_shortcircuit_fallthroughs():
            pass

        # verify correctness of DFA
        self._verify_fallthrough_loop()

class Outputter:
    SHIFT_WIDTH = 4

    def __init__(self, indent=0, target=None):
        if target:
            self.result = target
        else:
            self.result = io.StringIO()
        self.indent = indent

    def __enter__(self):
        return Outputter(self.indent + Outputter.SHIFT_WIDTH, self.result)

    def __exit__(self, *args, **kwargs):
        pass

    def add(self, *args, **kwargs):
        self.result.write(" " * self.indent)
        print(*args, **kwargs, file=self.result)

    def value(self):
        return self.result.getvalue()

    def __iadd__(self, tgt):
        self.result.write(textwrap.indent(tgt, " "*self.indent))
        return self

class CodegenCtx:
    def __init__(self, dfa_compile_ctx: DfaCompileCtx, program_name: str):
        self.start_actions = dfa_compile_ctx.start_actions
        self.hooks = dfa_compile_ctx.hooks
        self.finish_codes = dfa_compile_ctx.finish_codes
        self.yield_codes = dfa_compile_ctx.yield_codes
        self.dfa = dfa_compile_ctx.dfa
        self.state_object_spec: List[OutputStorage] = list(dfa_compile_ctx.state_object_spec.values())
        self.generic_fail_state = dfa_compile_ctx.generic_fail_state
        self.program_name = program_name

    @diagnoses_recursion_limit
    def generate_header(self):
        result = Outputter()
        if ProgramData.do(ProgramFlag.USE_PRAGMA_ONCE):
            result.add("#pragma once")
        else:
            result.add(f"#ifndef {self.program_name.upper()}_H")
            result.add(f"#define {self.program_name.upper()}_H")
        result.add("#include <stdbool.h>")
        result.add("#include <stdint.h>")
        result.add()
        result.add(f"// ============================" + "=" * len(self.program_name))
        result.add(f"// header file for nmfu parser {self.program_name}")
        result.add(f"// ============================" + "=" * len(self.program_name))
        result.add()

        if ProgramData.do(ProgramFlag.USE_CPLUSPLUS_GUARD):
            result.add("#ifdef __cplusplus")
            result.add("extern \"C\" {")
            result.add("#endif")

        result += self._generate_state_object_decl()

        result.add()
        if ProgramData.do(ProgramFlag.USE_PACKED_ENUMS):
            result.add(f"enum __attribute__((packed)) {self.program_name}_result {{")
        else:
            result.add(f"enum {self.program_name}_result {{")
        with result as enum_content:
            enum_content.add(f"{self.program_name.upper()}_OK,")
            enum_content.add(f"{self.program_name.upper()}_FAIL,")
            enum_content.add(f"{self.program_name.upper()}_DONE,")
            for fc in self.finish_codes:
                enum_content.add(f"{self.program_name.upper()}_FINISH_{fc},")
            for yc in self.yield_codes:
                enum_content.add(f"{self.program_name.upper()}_YIELD_{yc},")

        result.add("};")
        result.add(f"typedef enum {self.program_name}_result {self.program_name}_result_t;")
        result.add()

        result.add(f"{self.program_name}_result_t {self.program_name}_start({self.program_name}_state_t *state);")
        start_typename = "const uint8_t *" if not ProgramData.do(ProgramFlag.INDIRECT_START_PTR) else "const uint8_t **";
        result.add(f"{self.program_name}_result_t {self.program_name}_feed({start_typename}start, const uint8_t *end, {self.program_name}_state_t *state);")
        if ProgramData.do(ProgramFlag.EOF_SUPPORT):
            result.add(f"{self.program_name}_result_t {self.program_name}_end({self.program_name}_state_t *state);")
        if ProgramData.do(ProgramFlag.DYNAMIC_MEMORY):
            result.add(f"void {self.program_name}_free({self.program_name}_state_t *state);")
        
        if ProgramData.do(ProgramFlag.HOOK_GLOBAL):
            for hook in self.hooks:
                result.add(f"void {self.program_name}_{hook}_hook({self.program_name}_state_t *state, uint8_t inval);")

        if ProgramData.do(ProgramFlag.USE_CPLUSPLUS_GUARD):
            result.add("#ifdef __cplusplus")
            result.add("}")
            result.add("#endif")

        if not ProgramData.do(ProgramFlag.USE_PRAGMA_ONCE):
            result.add("#endif")

        return result.value()

    @diagnoses_recursion_limit
    def generate_source(self):
        result = Outputter()
        result.add(f"// ============================" + "=" * len(self.program_name))
        result.add(f"// source file for nmfu parser {self.program_name}")
        result.add(f"// ============================" + "=" * len(self.program_name))
        result.add(f"#include \"{self.program_name}.h\"")
        result.add("#include <string.h>")
        if ProgramData.do(ProgramFlag.DYNAMIC_MEMORY):
            result.add("#include <stdlib.h>")
        result.add()
        result += self._generate_start_implementation()
        result += self._generate_feed_implementation()
        if ProgramData.do(ProgramFlag.EOF_SUPPORT):
            result += self._generate_end_implementation()
        if ProgramData.do(ProgramFlag.DYNAMIC_MEMORY):
            result += self._generate_free_implementation()
        return result.value()

    def _integer_containing(self, maxval=None, signed=True, width=None):
        if width is not None:
            maxval = {
                1: 127,
                2: 32767,
                4: 2147483647,
                8: (1 << 63)-1
            }.get(width, None)
            if maxval is None:
                raise IllegalDFAStateError(f"Unsupported integer size {width} (supported sizes, in bytes: 1, 2, 4, 8)")
            if not signed:
                maxval += 1
        # TODO: customization point for non 32-bit machines
        if signed:
            if maxval is None:
                return "int32_t"
            elif maxval < 128:
                return "int8_t"
            elif maxval < 32768:
                return "int16_t"
            elif maxval < (1 << 31):
                return "int32_t"
            else:
                return "intmax_t"
        else:
            if maxval is None:
                return "uint32_t"
            elif maxval < 256:
                return "uint8_t"
            elif maxval < 65536:
                return "uint16_t"
            elif maxval < (1 << 32):
                return "uint32_t"
            else:
                return "uintmax_t"

    @staticmethod
    def _get_maxval_hint_for_raw_type(typename: str):
        """
        Guess the size of an arbitrary c type.
        """

        return {
            "int8_t": 1,
            "uint8_t": 1,
            "int16_t": 2,
            "uint16_t": 2,
            "int32_t": 4,
            "uint32_t": 4,
            "int64_t": 8,
            "uint64_t": 8,
            "float": 4,
            "double": 8
        }.get(typename, None)

    def _generate_state_object_decl(self):
        """
        Generate the ```
        struct program_name_state {
            
        };
        ```
        object, along with any enums.
        """

        result = Outputter()
        
        for out_decl in self.state_object_spec:
            if out_decl.type == OutputStorageType.ENUM:
                result += self._generate_out_enum(out_decl)
                result.add()

        if ProgramData.do(ProgramFlag.HOOK_PER_STATE):
            # Add a typedef
            result.add("// hook typedef")
            result.add(f"struct {self.program_name}_state;")
            result.add(f"typedef void (*{self.program_name}_hook_t)(struct {self.program_name}_state *, uint8_t);")

        result.add("// state object")
        result.add(f"struct {self.program_name}_state", "{")
        with result as contents:
            if self.state_object_spec:
                contents.add("struct {")
                with contents as out_contents:
                    for out_decl in self.state_object_spec:
                        out_contents.add(self._get_state_object_out_declaration(out_decl) + ";")
                contents.add("} c;")

            if any(x.holds_buflike() for x in self.state_object_spec):
                for out_str in (x for x in self.state_object_spec if x.type == OutputStorageType.STR):
                    contents.add(self._integer_containing(out_str.str_size, signed=False), f"{out_str.name}_counter;")
                for out_raw in (x for x in self.state_object_spec if x.type == OutputStorageType.RAW):
                    contents.add(self._integer_containing(self._get_maxval_hint_for_raw_type(out_raw.raw_underlying), signed=False), f"{out_raw.name}_counter;")

            contents.add(self._integer_containing(len(self.dfa.states), signed=False), "state;")

            # Add a user ptr if desired.
            if ProgramData.do(ProgramFlag.INCLUDE_USER_PTR):
                contents.add("void * userptr;")

            # Add hooks if desired
            if ProgramData.do(ProgramFlag.HOOK_PER_STATE):
                for hook in self.hooks:
                    contents.add(f"{self.program_name}_hook_t {hook}_hook;")

        result.add("};")
        result.add(f"typedef struct {self.program_name}_state {self.program_name}_state_t;")
        return result.value()

    def _get_string_char_type(self):
        return "uint8_t" if ProgramData.do(ProgramFlag.STRINGS_AS_U8) else "char"

    def _get_state_object_out_declaration(self, out_decl: OutputStorage):
        """
        Get the type of a state object out decl
        """
        
        if out_decl.type != OutputStorageType.STR:
            return {
                OutputStorageType.INT: self._integer_containing(signed=out_decl.int_signed, width=out_decl.int_width),
                OutputStorageType.ENUM: f"{self.program_name}_out_{out_decl.name}_t",
                OutputStorageType.BOOL: "bool",
                OutputStorageType.RAW: out_decl.raw_underlying
            }[out_decl.type] + " " + out_decl.name
        else:
            typ = self._get_string_char_type()
            if not self._is_dynamic(out_decl):
                return f"{typ} {out_decl.name}[{out_decl.str_size}]"
            else:
                return f"{typ} * {out_decl.name}"

    def _generate_out_enum(self, out_decl: OutputStorage):
        """
        Generate an output enum type
        """

        result = Outputter()
        result.add("// enum for output {}".format(out_decl.name))
        if ProgramData.do(ProgramFlag.USE_PACKED_ENUMS):
            result.add(f"enum __attribute__((packed)) {self.program_name}_out_{out_decl.name} {{")
        else:
            result.add(f"enum {self.program_name}_out_{out_decl.name} {{")
        
        with result as contents:
            for val in out_decl.enum_values:
                contents.add(f"{self.program_name.upper()}_{out_decl.name.upper()}_{val.upper()},")

        result.add("};")
        result.add(f"typedef enum {self.program_name}_out_{out_decl.name} {self.program_name}_out_{out_decl.name}_t;")
        return result.value()

    def _convert_literal_value(self, literal: LiteralIntegerExpr):
        if literal.result_type() == OutputStorageType.ENUM:
            return f"{self.program_name.upper()}_{literal.model_ref.name.upper()}_{literal.get_literal_result().upper()}"
        elif literal.result_type() == OutputStorageType.BOOL:
            return "true" if literal.get_literal_result() else "false"
        elif literal.result_type() == OutputStorageType.INT:
            value = literal.get_literal_result()
            if not -(1 << 63) <= value < (1 << 64):
                raise IllegalIntExpr(f"Constant {value} cannot be written in C (it is beyond every 64-bit integer type)", literal)
            if value == -(1 << 63):
                return "(-9223372036854775807 - 1)" # (the digits alone are not a valid signed constant)
            # (a constant beyond the signed 64-bit range is only valid C with an unsigned suffix)
            return str(value) + ("u" if value >= (1 << 63) else "")
        elif literal.result_type() == OutputStorageType.STR:
            return '"{}"'.format(self._escape_string(literal.get_literal_result()))
        else:
            raise NotImplementedError(literal.result_type())

    def _generate_buflike_index_expr(self, out_expr: OutputStorage, index_expr: str):
        if out_expr.holds_a(OutputStorageType.RAW):
            return f"((uint8_t *)&state->c.{out_expr.name})[{index_expr}]"
        else:
            return f"state->c.{out_expr.name}[{index_expr}]"

    def _generate_buflike_length_expr(self, out_expr: OutputStorage, include_null=False):
        if out_expr.holds_a(OutputStorageType.RAW):
            return f"sizeof(state->c.{out_expr.name})"
        else:
            if include_null:
                return str(out_expr.effective_string_size())
            else:
                return str(out_expr.str_size)

    def _constant_value_of(self, intexpr: IntegerExpr):
        """
        The value of an operand that is known at compile time (None if it is not, or cannot be computed)
        """

        if not intexpr.is_literal():
            return None
        try:
            value = intexpr.get_literal_result()
        except (ArithmeticError, ValueError):
            return None
        return value if type(value) is int else None

    def _check_constant_fits(self, intexpr: IntegerExpr, target: OutputStorage):
        """
        A constant stored into an integer output has to be representable in it (the C compiler refuses a constant that is not)
        """

        constant = self._constant_value_of(intexpr)
        if constant is None or target.type != OutputStorageType.INT:
            return
        bits = 8 * (target.int_width or 4)
        # (a negative constant stored into an unsigned output wraps around as it does in C -- `u = [0 - 1]` is the usual way to write "all ones" --
        # as long as it fits the signed type of the same width; that is also where the C compiler draws the line)
        if not -(1 << (bits - 1)) <= constant < (1 << (bits - 1 if target.int_signed else bits)):
            raise IllegalIntExpr(f"Constant {constant} does not fit output {target.name}", intexpr)

    def _generate_code_for_int_expr(self, intexpr: IntegerExpr, ctx: IntegerExprUseContext, out_expr: OutputStorage=None):
        """
        Generate C expression that evaluates to the value of intexpr, used in context ctx and which will fill out_expr (or have its type)
        """

        if ctx in intexpr.get_invalid_contexts():
            raise IllegalIntExpr("Illegal use of integer expression in context {}".format(ctx.name), intexpr)

        if out_expr is not None:
            if intexpr.result_type() != out_expr.type:
                raise IllegalIntExpr("Mismatched types for target storage", intexpr)

        if isinstance(intexpr, LiteralIntegerExpr):
            return self._convert_literal_value(intexpr)
        elif isinstance(intexpr, OutIntegerExpr):
            return f"state->c.{intexpr.ref.name}"
        elif isinstance(intexpr, StringLengthIntegerExpr):
            # a length is a plain non-negative int whatever type the counter is stored in (a uint32_t counter -- capacities from 65536 --
            # would make the arithmetic around it unsigned: `s.len - 1` is 4294967295 for an empty string)
            return f"(int32_t)state->{intexpr.ref.name}_counter"
        elif isinstance(intexpr, StringRefIntegerExpr):
            index = self._generate_code_for_int_expr(intexpr.index, ctx)
            # read the element as a byte value whatever the string's element type is (plain char may be signed)
            text = "(uint8_t)" + self._generate_buflike_index_expr(intexpr.ref, index)
            size_str = self._generate_buflike_length_expr(intexpr.ref)
            if ProgramData.do(ProgramFlag.UNSAFE_STRING_INDEXING):
                return text
            if intexpr.ref.holds_a(OutputStorageType.STR):
                # only what the string currently holds can be read: what a delete left behind is not part of it (and is gone altogether
                # when deleting frees the buffer)
                size_str = f"(long)state->{intexpr.ref.name}_counter"
            if ProgramData.do(ProgramFlag.ALLOCATE_STR_SPACE_DYNAMIC_ON_DEMAND) and self._is_dynamic(intexpr.ref):
                # the buffer does not exist until the first write (or after a freeing delete)
                return f"((state->c.{intexpr.ref.name} != NULL && ({index}) >= 0 && ({index}) < {size_str}) ? {text} : 0)"
            return f"((({index}) >= 0 && ({index}) < {size_str}) ? {text} : 0)"
        elif isinstance(intexpr, LastCharIntegerExpr):
            return f"(inval)" # name of the last character value
        elif isinstance(intexpr, SumIntegerExpr):
            result = f"({self._generate_code_for_int_expr(intexpr.children[0], ctx, out_expr)})"
            for child, operator in zip(intexpr.children[1:], intexpr.negate[1:]):
                result += " "
                result += "-" if operator else "+"
                result += " "
                result += f"({self._generate_code_for_int_expr(child, ctx, out_expr)})"
            return result
        elif isinstance(intexpr, MulIntegerExpr):
            result = f"({self._generate_code_for_int_expr(intexpr.children[0], ctx, out_expr)})"
            for child, operator in zip(intexpr.children[1:], intexpr.divide[1:]):
                if operator != MulIntegerExprOp.MUL and self._constant_value_of(child) == 0:
                    raise IllegalIntExpr("Division by zero", intexpr) # (the C compiler would refuse it too)
                result += " "
                result += operator.value
                result += " "
                result += f"({self._generate_code_for_int_expr(child, ctx, out_expr)})"
            return result
        elif isinstance(intexpr, CompareIntegerExpr):
            # (the operands have types of their own: the destination only constrains the type of the comparison's result)
            return f"({self._generate_code_for_int_expr(intexpr.left, ctx)}) {intexpr.op.value} ({self._generate_code_for_int_expr(intexpr.right, ctx)})"
        elif isinstance(intexpr, (DisjunctionIntegerExpr, ConjunctionIntegerExpr)):
            result = f"({self._generate_code_for_int_expr(intexpr.children[0], ctx, out_expr)})"
            for child in intexpr.children[1:]:
                result += " "
                result += "||" if isinstance(intexpr, DisjunctionIntegerExpr) else "&&"
                result += " "
                result += f"({self._generate_code_for_int_expr(child, ctx, out_expr)})"
            return result
        elif isinstance(intexpr, BitwiseIntegerExpr):
            result = f"({self._generate_code_for_int_expr(intexpr.children[0], ctx, out_expr)})"
            for child in intexpr.children[1:]:
                result += " "
                result += intexpr.op.value
                result += " "
                result += f"({self._generate_code_for_int_expr(child, ctx, out_expr)})"
            return result
        elif isinstance(intexpr, BitShiftIntegerExpr):
            shift_count = self._constant_value_of(intexpr.right)
            widest_operand = 64 if any(isinstance(x, OutIntegerExpr) and x.ref.int_width == 8 for x in intexpr.left.all_children()) else 32
            if shift_count is not None and not 0 <= shift_count < widest_operand:
                raise IllegalIntExpr(f"Shift count out of range (0 to {widest_operand - 1})", intexpr) # (undefined in C, and refused by the compiler)
            return f"({self._generate_code_for_int_expr(intexpr.left, ctx, out_expr)}) {'<<' if intexpr.towards_left else '>>'} ({self._generate_code_for_int_expr(intexpr.right, ctx, out_expr)})"
        else:
            raise NotImplementedError("unsupported intexpr type", intexpr)

    def _literal_bytes(self, value: Union[bytes, str]) -> bytes:
        """
        Get the bytes a string literal denotes. String literals hold one character per byte (see _convert_string), so
        they are encoded as latin-1; this keeps the emitted bytes and their count equal to what matches compare against.
        """

        if type(value) is str:
            try:
                return value.encode('latin-1')
            except UnicodeEncodeError:
                raise IllegalDFAStateError("String literal contains characters outside the byte range (use \\x escapes)")
        return value

    def _escape_string(self, value: Union[bytes, str]):
        result = ""
        for i in self._literal_bytes(value):
            if chr(i) in ["\\", '"', "?"]: # (the question mark so that no trigraph can form)
                result += "\\" + chr(i)
            elif not (32 <= i < 127):
                # octal escapes are at most three digits long; a hex escape would swallow any hex digits that follow it
                result += "\\{:03o}".format(i)
            else:
                result += chr(i)
        return result

    def _generate_set_string(self, value: Union[bytes, str], into: OutputStorage):
        """
        Generate code that sets value into into

        : strncpy(state->c.into, "value", into.str_size)

        Must ensure value is short enough first.
        """

        escaped_length = len(self._literal_bytes(value))

        return f"memcpy(state->c.{into.name}, \"{self._escape_string(value)}\", {escaped_length if not into.str_null else escaped_length+1});"

    def _generate_action_implementation(self, action: Action, is_start: bool = False, is_end: bool = False, transition=None):
        result = Outputter()
        ctx = IntegerExprUseContext.ASSIGN_ON_MATCH
        if is_start:
            ctx = IntegerExprUseContext.ASSIGN_INITIAL
        elif is_end:
            ctx = IntegerExprUseContext.ASSIGN_ON_END
        if isinstance(action, CustomFinishAction):
            result.add(f"return {self.program_name.upper()}_FINISH_{action.result_code};")
        elif isinstance(action, FinishAction):
            result.add(f"return {self.program_name.upper()}_DONE;")
        elif isinstance(action, CustomYieldAction):
            if not ProgramData.do(ProgramFlag.YIELD_SUPPORT):
                raise IllegalDFAStateError("Yield support not enabled", action)
            result.add(f"return {self.program_name.upper()}_YIELD_{action.result_code};")
        elif isinstance(action, SetTo):
            target = action.into_storage
            self._check_constant_fits(action.value_expr, target)
            value = self._generate_code_for_int_expr(action.value_expr, ctx, target)
            result.add(f"state->c.{target.name} = {value};")
        elif isinstance(action, SetToStr):
            assert action.into_storage.holds_a(OutputStorageType.STR)
            # Check if we need to allocate
            if ProgramData.do(ProgramFlag.ALLOCATE_STR_SPACE_DYNAMIC_ON_DEMAND):
                # it may be NULL (never allocated, or freed by a delete) or not (a default value, an earlier action -- also among the start actions)
                result.add(f"if (!state->c.{action.into_storage.name}) state->c.{action.into_storage.name} = malloc({action.into_storage.str_size});")
            if len(action.value_expr) > action.into_storage.effective_string_size():
                raise IllegalDFAStateError("Literal is too long for output", action)
            result.add(self._generate_set_string(action.value_expr, action.into_storage))
            result.add(f"state->{action.into_storage.name}_counter = {len(action.value_expr)};")
        elif isinstance(action, DeleteBuf):
            assert action.into_storage.holds_buflike()

            # free buffer if required
            if ProgramData.do(ProgramFlag.ALLOCATE_STR_SPACE_DYNAMIC_ON_DEMAND) and ProgramData.do(ProgramFlag.DELETE_STRING_FREE_MEMORY) and not is_start and self._is_dynamic(action.into_storage):
                result.add(f"free(state->c.{action.into_storage.name});")
                result.add(f"state->c.{action.into_storage.name} = NULL;")
            else:
                # if buffer is not freed, ensure strings are made empty
                if action.into_storage.holds_a(OutputStorageType.STR) and action.into_storage.str_null:
                    if ProgramData.do(ProgramFlag.ALLOCATE_STR_SPACE_DYNAMIC_ON_DEMAND) and self._is_dynamic(action.into_storage):
                        # nothing to terminate if the buffer was never allocated
                        result.add(f"if (state->c.{action.into_storage.name}) state->c.{action.into_storage.name}[0] = 0;")
                    else:
                        result.add(f"state->c.{action.into_storage.name}[0] = 0;")

            result.add(f"state->{action.into_storage.name}_counter = 0;");
        elif isinstance(action, (AppendTo, AppendCharTo)):
            assert action.into_storage.holds_buflike()
            output_length_expr = self._generate_buflike_length_expr(action.into_storage)
            # We treat the size given in by the user as including a terminating null (if requested, anyways)
            max_length_expr = self._generate_buflike_length_expr(action.into_storage, include_null=True)
            result.add(f"if (state->{action.into_storage.name}_counter == {max_length_expr}) {{")
            with result as body:
                body.add(f"state->state = {self.dfa.states.index(action.end_target)};")
                if transition is not None:
                    if isinstance(action, AppendCharTo) and not transition.is_fallthrough and not is_end:
                        # The byte this transition consumes was matched by the statement in front of the append; it is not what does not fit.
                        # The handler starts at the next byte (an appended match, in contrast, hands over the very byte that does not fit).
                        advance = "" if self._advances_before_actions(transition) else "++"
                        if ProgramData.do(ProgramFlag.INDIRECT_START_PTR):
                            body.add(f"if ({advance}(*start) == end) return {self.program_name.upper()}_OK;")
                            body.add("inval = **start;")
                        else:
                            body.add(f"if ({advance}start == end) return {self.program_name.upper()}_OK;")
                            body.add("inval = *start;")
                    body.add(f"goto repeatswitch;") # Fallthrough via switch
                else:
                    body.add(f"return {self.program_name.upper()}_OK;") # end processing instructions
            result.add("}")
            result.add("else {")
            with result as body:
                # Check if we need to allocate (only once there is something to store: a buffer allocated in front of the capacity test
                # would be left behind uninitialised when a string without room for anything overflows on its first append)
                if ProgramData.do(ProgramFlag.ALLOCATE_STR_SPACE_DYNAMIC_ON_DEMAND) and self._is_dynamic(action.into_storage):  # even a default value allocated in start() may have been freed by a delete
                    body.add(f"if (!state->c.{action.into_storage.name}) state->c.{action.into_storage.name} = malloc({output_length_expr});")
                target_expression = "inval" if isinstance(action, AppendTo) else self._generate_code_for_int_expr(
                    action.append_value, ctx, OutputStorage(OutputStorageType.INT, "$appendctx")
                )
                char_type = self._get_string_char_type()
                if action.into_storage.holds_a(OutputStorageType.RAW):
                    char_type = "uint8_t"
                # (the value may read the length or the contents of this very buffer: stored first, counted afterwards)
                body.add(f"{self._generate_buflike_index_expr(action.into_storage, f'state->{action.into_storage.name}_counter')} = ({char_type})({target_expression});")
                body.add(f"state->{action.into_storage.name}_counter++;")
                if action.into_storage.holds_a(OutputStorageType.STR) and action.into_storage.str_null:
                    body.add(f"{self._generate_buflike_index_expr(action.into_storage, f'state->{action.into_storage.name}_counter')} = 0;")
            result.add("}")
        elif isinstance(action, CallHook):
            parm = "0" if is_start else "inval"
            if ProgramData.do(ProgramFlag.HOOK_GLOBAL):
                result.add(f"{self.program_name}_{action.name}_hook(state, {parm});")
            elif ProgramData.do(ProgramFlag.HOOK_PER_STATE):
                result.add(f"(state->{action.name}_hook)(state, {parm});")
            else:
                raise IllegalDFAStateError("Attempt to use hook while no hook method is enabled", action)
        elif isinstance(action, ConditionalAction):
            generated_if = False
            for condition in action.conditions:
                if isinstance(condition, ElseCondition):
                    if not generated_if:
                        raise IllegalDFAStateError("Else condition is not last in list", action)
                    result.add("else {")
                else:
                    if generated_if:
                        cond_name = "else if"
                    else:
                        generated_if = True
                        cond_name = "if"

                    result.add(f"{cond_name} ({self._generate_condition(condition, is_start or is_end, True)}) {{")

                # Generate condition body like normal
                with result as body:
                    for sub_act in action.sub_actions[condition]:
                        body += self._generate_action_implementation(sub_act, is_start=is_start, is_end=is_end, transition=transition)

                result.add("}")
        elif isinstance(action, BreakAction):
            # And add the finish actions to everything that pointed at it
            # Generate all subactions
            result.add("// break subactions")
            for subaction in action.replacement_actions():
                result += self._generate_action_implementation(subaction, is_start=is_start, is_end=is_end, transition=transition)
            result.add(f"state->state = {self.dfa.states.index(action.refers_to.end_state)};")
            if transition is not None:
                result.add(f"goto {self._transition_skip_action_label(transition)};")
            else:
                result.add(f"return {self.program_name.upper()}_OK;")
            ProgramData.imbue(action, DTAG.ACTION_MAY_SKIP, True)
        else:
            raise NotImplementedError(action)
        return result.value()

    def _is_dynamic(self, out_expr: OutputStorage):
        return out_expr.holds_a(OutputStorageType.STR) and ProgramData.do(ProgramFlag.ALLOCATE_STR_SPACE_DYNAMIC)

    def _generate_start_implementation(self):
        result = Outputter()

        result.add(f"{self.program_name}_result_t {self.program_name}_start({self.program_name}_state_t *state)", "{")

        with result as contents:
            # Initialize all state variables
            # First, any (if specified) default values.
            for out_expr in self.state_object_spec:
                # If a string, first init the counter value
                if out_expr.holds_buflike():
                    counter_val = 0
                    if out_expr.default_value is not None:
                        assert out_expr.holds_a(OutputStorageType.STR)
                        counter_val = len(out_expr.default_value)
                    contents.add("// initialize append counter for", out_expr.name)
                    contents.add(f"state->{out_expr.name}_counter = {counter_val};")
                if out_expr.default_value is not None:
                    contents.add("// initialize default for", out_expr.name)
                    if out_expr.holds_buflike():
                        assert out_expr.holds_a(OutputStorageType.STR)
                        # Also allocate the data if not included
                        if self._is_dynamic(out_expr):
                            contents.add(f"state->c.{out_expr.name} = malloc({self._generate_buflike_length_expr(out_expr)});")
                        if len(out_expr.default_value) > out_expr.effective_string_size():
                            raise IllegalDFAStateError("Default value is too long for output", out_expr)
                        contents.add(self._generate_set_string(out_expr.default_value, out_expr))
                    else:
                        self._check_constant_fits(out_expr.default_value, out_expr)
                        contents.add(f"state->c.{out_expr.name} = {self._generate_code_for_int_expr(out_expr.default_value, IntegerExprUseContext.ASSIGN_INITIAL, out_expr)};")

            # Set starting state
            contents.add("// set starting state")
            contents.add(f"state->state = {self.dfa.states.index(self.dfa.starting_state)};")

            if ProgramData.do(ProgramFlag.ALLOCATE_STR_SPACE_DYNAMIC):
                for out_expr in self.state_object_spec:
                    if out_expr.type != OutputStorageType.STR or out_expr.default_value is not None:
                        continue # these cases are handled above
                    if ProgramData.do(ProgramFlag.ALLOCATE_STR_SPACE_DYNAMIC_ON_DEMAND):
                        contents.add(f"// set {out_expr.name} to null")
                        contents.add(f"state->c.{out_expr.name} = NULL;")
                    else:
                        contents.add(f"// allocate space for {out_expr.name}")
                        contents.add(f"state->c.{out_expr.name} = malloc({out_expr.str_size});")

            # A terminated string is terminated at its length from the start, also when nothing has been stored in it yet
            for out_expr in self.state_object_spec:
                if out_expr.type != OutputStorageType.STR or out_expr.default_value is not None or not out_expr.str_null:
                    continue
                if ProgramData.do(ProgramFlag.ALLOCATE_STR_SPACE_DYNAMIC_ON_DEMAND):
                    continue # no buffer yet
                contents.add(f"// terminate {out_expr.name}")
                contents.add(f"state->c.{out_expr.name}[0] = 0;")

            # Run any start actions
            if self.start_actions:
                contents.add("// run start actions")
            for action in self.start_actions:
                contents += self._generate_action_implementation(action, True)
        
            contents.add(f"return {self.program_name.upper()}_OK;")
        result.add("}")
        return result.value()

    def _generate_equal_check(self, on_value):
        return f"inval == {ord(on_value)} /* {on_value!r} */"

    def _generate_range_check(self, min_cpoint, max_cpoint):
        """
        Get a range check for min_cpoint <= x <= max_cpoint
        """

        return f"({ord(min_cpoint)} <= inval && inval <= {ord(max_cpoint)} /* {repr(min_cpoint)} - {repr(max_cpoint)} */)"

    def _generate_condition_for_transition(self, transition: DFTransition):
        """
        Generate a string which can be inserted into an if () condition that returns true
        if the transition should be taken
        """

        # The general approach here is to use the various match techniques to extract "better" conditions, until
        # being left with either a few sparse values in an on_values copy or indeed nothing. This forms the initial
        # value of the result string

        on_values_remaining = transition.on_values[:]
        checks = []

        if ProgramData.do(ProgramFlag.COLLAPSE_TRANSITION_RANGES) and len(on_values_remaining) >= ProgramData.option(ProgramOption.COLLAPSED_RANGE_LENGTH):
            # sort the on values in ascending order
            on_values_remaining.sort(key=lambda x: x if isinstance(x, str) else '') # end goes at the beginning

            used = []  # store all removed values into an array
            start_idx = 1 if DFTransition.End in on_values_remaining else 0

            range_start = start_idx
            range_end = start_idx

            for i in range(start_idx + 1, len(on_values_remaining)):
                if ord(on_values_remaining[i-1]) + 1 == ord(on_values_remaining[i]):
                    range_end = i
                else:
                    if range_end - range_start >= ProgramData.option(ProgramOption.COLLAPSED_RANGE_LENGTH):
                        # this is a valid range
                        for j in range(range_start, range_end+1):
                            used.append(on_values_remaining[j])
                        checks.append(self._generate_range_check(on_values_remaining[range_start], on_values_remaining[range_end]))
                    range_start = i
                    range_end = i

            if range_start < len(on_values_remaining) and range_end - range_start >= ProgramData.option(ProgramOption.COLLAPSED_RANGE_LENGTH):
                # this is a valid range (there may be no character at all to start one: a transition on end-of-input alone)
                for j in range(range_start, range_end+1):
                    used.append(on_values_remaining[j])
                checks.append(self._generate_range_check(on_values_remaining[range_start], on_values_remaining[range_end]))

            for x in used:
                on_values_remaining.remove(x)

        # Match the remaining ones with boring equals
        checks.extend(self._generate_equal_check(x) for x in on_values_remaining if x != DFTransition.End)

        result = " || ".join(checks)

        return result

    def _transition_will_directly_jump(self, transition: DFTransition, excl_fall=False):
        if transition.is_fallthrough and not excl_fall:
            return False
        if transition.target in self.dfa.accepting_states and not ProgramData.do(ProgramFlag.STRICT_DONE_TOKEN_GENERATION):
            return False
        return all(x.get_target_override_mode() == ActionOverrideMode.NONE for x in transition.actions)

    def _advances_before_actions(self, transition: DFTransition):
        """
        Does the body of this (consuming, feed-time) transition advance the input before it performs the actions? (see _generate_transition_body)
        """

        immediate_done = transition.target in self.dfa.accepting_states and not ProgramData.do(ProgramFlag.STRICT_DONE_TOKEN_GENERATION) and all(x.error_handling for x in transition.target.transitions)
        return any(x.may_return_early() for x in transition.actions) and not immediate_done

    def _transition_skip_action_label(self, transition: DFTransition):
        return f"skipaction_{id(transition)}"

    def _generate_transition_body(self, transition: DFTransition, from_end=False):
        transition_body = Outputter()
        # Set the next state
        try:
            transition_body.add(f"state->state = {self.dfa.states.index(transition.target)};")
        except ValueError:
            transition_body.add("// terminating state")
        target_overriden = False
        needs_early_advance = any(x.may_return_early() for x in transition.actions)
        immediate_done = transition.target in self.dfa.accepting_states and not ProgramData.do(ProgramFlag.STRICT_DONE_TOKEN_GENERATION) and all(x.error_handling for x in transition.target.transitions)
        if needs_early_advance and not from_end and not transition.is_fallthrough and not immediate_done:
            if ProgramData.do(ProgramFlag.INDIRECT_START_PTR):
                transition_body.add(f"++(*start);");
            else:
                transition_body.add(f"++start;");
        # Generate actions
        leaves_for_elsewhere = False
        for action in transition.actions:
            transition_body.add()
            transition_body.add(f"// action {action!r} ")
            transition_body += self._generate_action_implementation(action, is_end=from_end, transition=transition)
            if action.get_target_override_mode() in [ActionOverrideMode.MAY_GOTO_TARGET, ActionOverrideMode.ALWAYS_GOTO_OTHER]:
                leaves_for_elsewhere = True
            if action.get_target_override_mode() in [ActionOverrideMode.ALWAYS_GOTO_OTHER, ActionOverrideMode.ALWAYS_GOTO_UNDEFINED]:
                # nothing gets past this one: what stands behind it (the statements after a finish or break) is never performed,
                # and the states only those statements refer to are not part of the machine
                break
        if any(
            any(
                ProgramData.lookup(subact, DTAG.ACTION_MAY_SKIP, recurse_upwards=False, default=False) for subact in action.all_subactions()
            ) for action in transition.actions
        ):
            transition_body.add("// skip action label")
            # (with the empty statement a label needs behind it: it may be the last thing in its block)
            transition_body.add(f"{self._transition_skip_action_label(transition)}:;")
        # Check if we should fallthrough and generate a goto
        if transition.is_fallthrough:
            # (where an action in front of a finish may leave for another state, or one always does, the transition's own target need not exist)
            if transition.target in self.dfa.states or leaves_for_elsewhere:
                transition_body.add(f"// fallthrough")
                if self._transition_will_directly_jump(transition, excl_fall=True):
                    transition_body.add(f"goto fall_{self.dfa.states.index(transition.target)};")
                else:
                    transition_body.add(f"goto repeatswitch;");
            else:
                transition_body.add("// fallthrough to terminate")
        # Otherwise, if this state is targeting an accept state, return DONE instead of OK
        elif immediate_done and not (from_end and leaves_for_elsewhere):
            # (in end(), where an action may have left for another state, the caller looks at where the machine really is)
            transition_body.add("// immediately return DONE")
            transition_body.add(f"return {self.program_name.upper()}_DONE;")
        # Normally, though, just generate a jump to the next jpto
        elif not from_end:
            if transition.target in self.dfa.states or leaves_for_elsewhere:
                if ProgramData.do(ProgramFlag.INDIRECT_START_PTR):
                    transition_body.add(f"if ({'++' if not needs_early_advance else ''}(*start) == end) return {self.program_name.upper()}_OK;");
                    transition_body.add("inval = **start;")
                else:
                    transition_body.add(f"if ({'++' if not needs_early_advance else ''}start == end) return {self.program_name.upper()}_OK;");
                    transition_body.add("inval = *start;")
                if self._transition_will_directly_jump(transition):
                    transition_body.add(f"goto jpto_{self.dfa.states.index(transition.target)};");
                else:
                    # use the repeatswitch case
                    transition_body.add(f"goto repeatswitch;");
            else:
                pass # terminating state
        return transition_body.value()

    def _generate_condition(self, condition: DFCondition, from_end=False, from_action=False):
        use_ctx = {
            (False, False): IntegerExprUseContext.CONDITION_PREDICATE,
            (True, False): IntegerExprUseContext.CONDITION_PREDICATE_END,
            (False, True): IntegerExprUseContext.CONDITION_PREDICATE_ACTION,
            (True, True): IntegerExprUseContext.CONDITION_PREDICATE_ACTION_END,
        }[(from_end, from_action)]
        if isinstance(condition, ConstantCondition):
            return str(condition.get_literal_result()).lower()
        elif isinstance(condition, IntegerCondition):
            return self._generate_code_for_int_expr(condition.expr, use_ctx)

    def _generate_condition_point_body(self, state: DFConditionPoint, from_end=False):
        result = Outputter()

        result.add("// conditions")

        generated_if = False
        for condition in state.transitions:
            if isinstance(condition.condition, ElseCondition):
                if not generated_if:
                    raise IllegalDFAStateError("Else condition is not last in list", state)
                result.add("else {")
            else:
                if generated_if:
                    cond_name = "else if"
                else:
                    generated_if = True
                    cond_name = "if"

                result.add(f"{cond_name} ({self._generate_condition(condition.condition, from_end)}) {{")

            # Generate condition body like normal
            with result as body:
                body += self._generate_transition_body(condition, from_end)

            result.add("}")

        result.add("// fallback for invalid state")
        result.add(f"return {self.program_name.upper()}_FAIL;")

        return result.value()

    def _generate_switch_body(self, state: DFState):
        if isinstance(state, DFConditionPoint):
            return self._generate_condition_point_body(state)
        result = Outputter()

        # A finished program stays finished: where only error paths leave an accepting state the transition into it
        # already answers DONE (see immediate_done); when that answer was postponed (strict done tokens) it is still DONE.
        if state in self.dfa.accepting_states and all(x.error_handling for x in state.transitions):
            result.add(f"return {self.program_name.upper()}_DONE;")
            return result.value()

        # Split transitions into else groups
        try:
            actual_else_transition = next(state.all_transitions_for((DFTransition.Else,)))
        except StopIteration:
            actual_else_transition = None

        result.add("// transitions")
        generated_if = False
        
        # Create all transition if cases
        for j, transition in enumerate((x for x in state.transitions if x != actual_else_transition)):
            cond_name = "else if"
            conditions = self._generate_condition_for_transition(transition)
            if not conditions:
                continue
            if not generated_if:
                generated_if = True
                cond_name = "if"
            result.add(f"{cond_name} ({conditions}) {{")
            with result as transition_body:
                transition_body += self._generate_transition_body(transition)
            result.add("}")

        if actual_else_transition:
            if generated_if:
                result.add("else {")
            with result as transition_body:
                transition_body += self._generate_transition_body(actual_else_transition)
            if generated_if:
                result.add("}")
        if state in self.dfa.accepting_states:
            result.add(f"return {self.program_name.upper()}_DONE;")
        else:
            result.add(f"return {self.program_name.upper()}_OK;")
        return result.value()

    def _needs_end_check(self):
        if ProgramData.do(ProgramFlag.ZERO_LEN_INPUT_SUPPORT):
            return True

        for trans in self.dfa.all_transitions():
            if any(x.may_return_early() for x in trans.actions):
                return True
        return False

    def _fail_state_index(self):
        """
        The number the machine rests at once it has failed: that of the generic fail state or, where no input can make the
        program fail, one past the last state (both switches answer FAIL by default).
        """

        if self.generic_fail_state in self.dfa.states:
            return self.dfa.states.index(self.generic_fail_state)
        return len(self.dfa.states)

    def _generate_feed_implementation(self):
        result = Outputter()

        start_typename = "const uint8_t *" if not ProgramData.do(ProgramFlag.INDIRECT_START_PTR) else "const uint8_t **";
        result.add(f"{self.program_name}_result_t {self.program_name}_feed({start_typename}start, const uint8_t *end, {self.program_name}_state_t *state) {{")
        with result as contents:
            if self._needs_end_check():
                chunk_is_empty = f"{'*start' if ProgramData.do(ProgramFlag.INDIRECT_START_PTR) else 'start'} == end"
                # (an empty chunk changes nothing: once failed, the answer stays FAIL)
                contents.add(f"if ({chunk_is_empty}) return state->state == {self._fail_state_index()} ? {self.program_name.upper()}_FAIL : {self.program_name.upper()}_OK;")
                contents.add()
                # Generate an explicit input check 
            # Generate the `inval` variable
            contents.add("uint8_t inval = " + ("**start" if ProgramData.do(ProgramFlag.INDIRECT_START_PTR) else "*start") + ";")
            contents.add("(void)inval; // not every parser looks at the byte value")
            contents.add()
            # Generate a target for states with actions that modify the state in an unpredictable way
            contents.add("repeatswitch:");
            # The body of feed is a massive switch statement that has a bunch of internal gotos
            contents.add("switch (state->state) {")
            for idx, state in enumerate(self.dfa.states):
                # Emit the case label
                contents.add(f"case {idx}:")
                # Emit goto target for fallthroughs if anything falls here (these are separate to make it slightly easier to read)
                # (consider the transitions of every state we generate code for, not only the reachable ones: unreachable states are still emitted
                # unless they were optimized away, and their gotos need their labels too)
                incoming = [x for source in self.dfa.states for x in source.all_transitions() if x.target == state]
                if any(x.is_fallthrough and self._transition_will_directly_jump(x, excl_fall=True) for x in incoming):
                    contents.add(f"fall_{idx}:")
                # If any transition can directly jump into this case, emit a label for it to do so. We don't really _need_ these checks
                # but gcc complains about unused labels in -Wall.
                if any(self._transition_will_directly_jump(x) for x in incoming if x.on_values != {DFTransition.End}):
                    contents.add(f"jpto_{idx}:")
                with contents as state_body:
                    # Is this a normal state
                    if state is not self.generic_fail_state:
                        state_body += self._generate_switch_body(state)
                    else:
                        state_body.add(f"return {self.program_name.upper()}_FAIL;")

            contents.add(f"default: return {self.program_name.upper()}_FAIL;")
            contents.add("}")

        result.add("}")
        return result.value()

    def _generate_end_switch_body(self, state: DFState):
        if isinstance(state, DFConditionPoint):
            return self._generate_condition_point_body(state, True)
        result = Outputter()

        # Find all transitions that operate on End
        unconditional_end_transition = state[DFTransition.End]

        # An Else that takes a byte (the restart of a wait) stands for data: it cannot take end-of-input, and neither are its actions due there.
        if unconditional_end_transition and DFTransition.End not in unconditional_end_transition.on_values and not unconditional_end_transition.is_fallthrough:
            unconditional_end_transition = None

        # If the program has already reached its end here, running off it at end-of-input is not a mismatch: don't follow the error path.
        if unconditional_end_transition and unconditional_end_transition.error_handling and state in self.dfa.accepting_states:
            unconditional_end_transition = None

        result.add("// possible end transitions")
        
        # Create all transitions for possible conditions
        final_state = state
        redirected_to = set()
        matched_end_pattern = False
        if unconditional_end_transition:
            result += self._generate_transition_body(unconditional_end_transition, True)
            # a taken end transition that isn't a fallthrough (those re-dispatch on their own) leaves us in its target
            if not unconditional_end_transition.is_fallthrough:
                final_state = unconditional_end_transition.target
                # (an Else that stands for end-of-input is a data pattern running into it: that one does not match; neither does the
                # error path of a wait, which lists End only to send it back to the start)
                matched_end_pattern = DFTransition.End in unconditional_end_transition.on_values and not unconditional_end_transition.error_handling
                # ... unless one of its actions (a break under an if, ...) sent us somewhere else instead
                for action in unconditional_end_transition.actions:
                    for subaction in action.all_subactions():
                        if subaction.get_target_override_mode() != ActionOverrideMode.NONE:
                            redirected_to.update(subaction.get_target_override_targets())

        # Where such a redirection ends in a state that answers differently, look at where we really are
        answers_differently = sorted(self.dfa.states.index(x) for x in redirected_to if x in self.dfa.states and (x in self.dfa.accepting_states) != (final_state in self.dfa.accepting_states))
        if answers_differently:
            redirected = " || ".join(f"state->state == {x}" for x in answers_differently)
            if final_state in self.dfa.accepting_states:
                # end-of-input is still what comes next there: that state's own end handling answers (and keeps a FAIL final)
                result.add(f"if ({redirected}) goto repeatswitch;")
            else:
                result.add(f"if ({redirected}) return {self.program_name.upper()}_DONE;")

        if final_state in self.dfa.accepting_states:
            result.add(f"return {self.program_name.upper()}_DONE;")
        elif matched_end_pattern:
            # the program goes on after the `end` pattern and end-of-input is still what comes next: whatever follows without consuming
            # (a yield, an if, the handler of a try whose body wants more input) is dispatched from where we are now
            result.add("goto repeatswitch;")
        else:
            # FAIL is final wherever end-of-input struck (inside a wait nothing leads to the fail state by itself)
            result.add(f"state->state = {self._fail_state_index()};")
            result.add(f"return {self.program_name.upper()}_FAIL;")
        return result.value()
    
    def _generate_end_implementation(self):
        result = Outputter()

        result.add(f"{self.program_name}_result_t {self.program_name}_end({self.program_name}_state_t *state) {{")
        result.add(f"#define inval 255") # generate a define for this so that hooks still work
        with result as contents:
            # Generate a target for states with actions that modify the state in an unpredictable way (as in feed)
            contents.add("repeatswitch:");
            # Generate a big switch statement for all states
            contents.add("switch (state->state) {")
            for idx, state in enumerate(self.dfa.states):
                # Emit the case label
                contents.add(f"case {idx}:")
                # Emit goto target for fallthroughs if anything falls here (these are separate to make it slightly easier to read)
                if any(x.is_fallthrough for source in self.dfa.states for x in source.all_transitions() if x.target == state):
                    contents.add(f"fall_{idx}:")
                with contents as state_body:
                    # Is this a normal state
                    if state is not self.generic_fail_state:
                        state_body += self._generate_end_switch_body(state)
                    else:
                        state_body.add(f"return {self.program_name.upper()}_FAIL;")

            contents.add(f"default: return {self.program_name.upper()}_FAIL;")
            contents.add("}")

        result.add(f"#undef inval")
        result.add("}")
        return result.value()

    def _generate_free_implementation(self):
        result = Outputter()

        result.add(f"void {self.program_name}_free({self.program_name}_state_t *state) {{")
        
        with result as contents:
            # If strings were allocated dynamically, free every string (rationale is that they will be nullptrs)
            if ProgramData.do(ProgramFlag.ALLOCATE_STR_SPACE_DYNAMIC):
                for out_expr in self.state_object_spec:
                    if out_expr.type == OutputStorageType.STR:
                        contents.add(f"// free storage for {out_expr.name}")
                        contents.add(f"free(state->c.{out_expr.name});")
                        contents.add(f"state->c.{out_expr.name} = NULL;")

        result.add("}")
        return result.value()

# =============
# DEBUG DUMPERS
# =============

def debug_dump_dfa(dfa: DFA, out_name="dfa", highlight=None): # pragma: no cover
    if not debug_enabled:
        raise RuntimeError("Debugging was disabled! You probably need to install graphviz")

    g = graphviz.Digraph(name='dfa', comment=ProgramData.lookup(dfa, DTAG.NAME))

    nodes = []
    edges = []

    def build_label_condition(condition: DFCondition):
        val = ProgramData.lookup(condition, DTAG.NAME)
        if not val:
            val = repr(condition)
        return graphviz.escape(val)

    def build_label_single(value):
        if ProgramData.do(ProgramFlag.DEBUG_DFA_BINARY_LABELS) and type(value) in (str, bytes):
            return f"{ord(value):02x}"
        else: return repr(value)

    def build_label_onvalues(on_values):
        on_values_remaining = list(on_values)
        on_values_remaining.sort(key=lambda x: x if isinstance(x, str) else '')

        used = []
        start_idx = sum(int(not isinstance(x, str)) for x in on_values_remaining)

        range_start = start_idx
        range_end = start_idx

        label = ""

        for i in range(start_idx + 1, len(on_values_remaining)):
            if ord(on_values_remaining[i-1]) + 1 == ord(on_values_remaining[i]):
                range_end = i
            else:
                if range_end - range_start >= ProgramData.option(ProgramOption.COLLAPSED_RANGE_LENGTH):
                    # this is a valid range
                    for j in range(range_start, range_end+1):
                        used.append(on_values_remaining[j])
                    
                    label += f"{build_label_single(on_values_remaining[range_start])}-{build_label_single(on_values_remaining[range_end])},"
                range_start = i
                range_end = i

        if range_start < len(on_values_remaining) and range_end - range_start >= ProgramData.option(ProgramOption.COLLAPSED_RANGE_LENGTH):
            # this is a valid range (as in the code generator: there may be no character at all to start one)
            for j in range(range_start, range_end+1):
                used.append(on_values_remaining[j])
            label += f"{build_label_single(on_values_remaining[range_start])}-{build_label_single(on_values_remaining[range_end])},"

        for x in used:
            on_values_remaining.remove(x)

        if on_values_remaining:
            label += ",".join(build_label_single(x) for x in on_values_remaining)
        elif label:
            label = label[:-1]
        label = graphviz.escape(label)
        return label

    transition_similar_count = Counter()
    replaced_actions = {}
    for state in dfa.states:
        for transition in state.all_transitions():
            transition_similar_count[(frozenset(transition.on_values), transition.target)] += 1
            for action in transition.actions:
                if action.get_target_override_mode() in [ActionOverrideMode.ALWAYS_GOTO_OTHER, ActionOverrideMode.MAY_GOTO_TARGET]:
                    replaced_actions[id(action)] = action
                    for tgt in action.get_target_override_targets():
                        transition_similar_count[(frozenset([id(action)]), tgt)] += 1

    ignored_transitions = []
    if ProgramData.do(ProgramFlag.DEBUG_DFA_HIDE_ERROR_HANDLING):
        for i, count in transition_similar_count.items():
            if count >= ProgramData.option(ProgramOption.DEBUG_DFA_HIDE_THRESHOLD):
                ignored_transitions.append(i)

    for j, state in enumerate(dfa.states):
        shape = "circle"
        if state in dfa.accepting_states:
            shape = "doublecircle"
        elif state == dfa.starting_state:
            shape = "square"
        if state == highlight:
            shape = "triangle"

        parent_thing = ProgramData.lookup(state, DTAG.PARENT)
        while parent_thing and not isinstance(parent_thing, (Node, Match)):
            parent_thing = ProgramData.lookup(parent_thing, DTAG.PARENT)
        parent_id = (id(parent_thing) * 11400714819323198485) & ((1 << 64)-1)
        parent_id >>= (64-24)
        parent_id |= 0x808080
        parent_color = "#" + format(parent_id, "06x")
        g.node(str(id(state)), shape=shape, label=str(j), style="filled,dashed" if isinstance(state, DFConditionPoint) else "filled", fillcolor=parent_color)
        for transition in state.all_transitions():
            if isinstance(transition, DFConditionalTransition):
                if transition.condition.is_literal() and transition.condition.get_literal_result() == False:
                    continue
                label = build_label_condition(transition.condition)
            else:
                if not transition.target or not transition.on_values:
                    continue
                label = build_label_onvalues(transition.on_values)
                if (frozenset(transition.on_values), transition.target) in ignored_transitions:
                    continue
            is_real = True
            overriden_target = str(id(transition.target))

            for action in transition.actions:
                acname = ProgramData.lookup(action, DTAG.NAME, recurse_upwards=False)
                if acname:
                    label += "\n{}".format(acname)
                else:
                    acname = repr(action)
                    label += f"\n{action!r}"
                if action.get_target_override_mode() in [ActionOverrideMode.ALWAYS_GOTO_OTHER, ActionOverrideMode.MAY_GOTO_TARGET]:
                    for tgt in action.get_target_override_targets():
                        if (frozenset([id(action)]), tgt) not in ignored_transitions:
                            g.edge(str(id(state)), str(id(tgt)), label=f"{acname} side effect")
                if action.get_target_override_mode() in [ActionOverrideMode.ALWAYS_GOTO_OTHER, ActionOverrideMode.ALWAYS_GOTO_UNDEFINED]:
                    if action.get_target_override_mode() == ActionOverrideMode.ALWAYS_GOTO_UNDEFINED:
                        # add fake invisible node
                        g.node("_asn" + str(id(action)), style="invis")
                        overriden_target = "_asn" + str(id(action))
                    else:
                        is_real = False
                    break
            if is_real:
                g.edge(str(id(state)), overriden_target, label=label, style="dashed" if transition.is_fallthrough else "solid", color = "orange" if transition.error_handling else "black")

    for v in ignored_transitions:
        values, target = v
        if not target or not values:
            continue
        # make a node
        g.node(str(id(v)), shape="rectangle", label=f"{transition_similar_count[v]} others", color="blue", fontsize="10")
        if type(next(iter(values))) is int:
            acid = next(iter(values))
            label = f"{ProgramData.lookup(replaced_actions[acid], DTAG.NAME, recurse_upwards=False)} side effect"
        else:
            label = build_label_onvalues(values)
        g.edge(str(id(v)), str(id(target)), label=label)

    if ProgramData.option(ProgramOption.DEBUG_GRAPH_DUMP_FORMAT) == "dot":
        g.save(out_name + ".dot")
    else:
        g.render(out_name, format=ProgramData.option(ProgramOption.DEBUG_GRAPH_DUMP_FORMAT), cleanup=True)

def debug_dump_regexnfa(nfa: RegexNFA, out_name="nfa"): # pragma: no cover
    if not debug_enabled:
        raise RuntimeError("Debugging was disabled! You probably need to install graphviz")

    g = graphviz.Digraph(name='nfa', comment=ProgramData.lookup(nfa, DTAG.NAME))

    nodes = []
    edges = []

    for j, state in enumerate(nfa.states):
        shape = "circle"
        if state in nfa.finishing_states:
            shape = "doublecircle"
        elif state == nfa.start_state:
            shape = "square"
        g.node(str(id(state)), shape=shape, label=str(j))
        for source, target in state.transitions.items():
            label = "^" + repr(source.chars).replace("frozenset", "") if isinstance(source, InvertedRegexCharClass) else repr(source.chars).replace("frozenset", "")
            label = graphviz.escape(label)
            g.edge(str(id(state)), str(id(target)), label=label)
        for target in state.epsilon_moves:
            label = "e"
            g.edge(str(id(state)), str(id(target)), label=label)

    if ProgramData.option(ProgramOption.DEBUG_GRAPH_DUMP_FORMAT) == "dot":
        g.save(out_name + ".dot")
    else:
        g.render(out_name, format=ProgramData.option(ProgramOption.DEBUG_GRAPH_DUMP_FORMAT), cleanup=True)

def debug_dump_ast(ast, out_name="ast", into=None, coming_from=None, make_id=None, make_subgraph=None): # pragma: no cover
    if into is None:
        g = graphviz.Digraph(name='ast')
        g.attr(ranksep="0.01", rankdir="LR", labeljust="l")
        idx = 0
        sidx = 0

        def _make_id():
            nonlocal idx
            idx += 1
            return f"a_{idx}"

        def _make_sid():
            nonlocal sidx
            sidx += 1
            return f"cluster_{idx}"

        g.node("c_0", style="invis")
        
        debug_dump_ast(ast, into=g, coming_from=["c_0"], make_id=_make_id, make_subgraph=_make_sid)

        if ProgramData.option(ProgramOption.DEBUG_GRAPH_DUMP_FORMAT) == "dot":
            g.save(out_name + ".dot")
        else:
            g.render(out_name, format=ProgramData.option(ProgramOption.DEBUG_GRAPH_DUMP_FORMAT), cleanup=True)
        return

    if ast is None:
        # a body made of actions only (compiling it is what diagnoses that)
        return coming_from

    def label_of(x):
        base = type(x).__name__
        if type(x).__repr__ != object.__repr__:
            base = repr(x)

        name = ProgramData.lookup(x, DTAG.NAME, recurse_upwards=False)
        if name:
            base += f" ({name})"

        return graphviz.escape(base)

    def tie_to(sources, cfrm=None, extra_kwargs=None):
        if cfrm is None:
            cfrm = coming_from
        if type(sources) is str:
            sources = [sources]
        for i in sources:
            for x in cfrm:
                if x:
                    if extra_kwargs:
                        into.edge(x, i, **extra_kwargs)
                    else:
                        into.edge(x, i)
    
    with into.subgraph(name=make_subgraph()) as c:
        c.attr(label=label_of(ast))

        if isinstance(ast, ActionNode):
            # Add nodes for each action
            
            for action in ast.actions:
                node = make_id()
                c.node(node, label=label_of(action))
                tie_to(node)
                coming_from = [node]

        elif isinstance(ast, MatchNode):
            # List the adopted actions
            for name, l in zip(("start", "each", "finish"), (ast.match.start_actions, ast.match.char_actions, ast.match.finish_actions)):
                if not l:
                    continue
                node = make_id()
                c.node(node, f"{name}: {','.join(label_of(x) for x in l)}", style="filled", color="white")

            # Put the match in as a node
            node = make_id()
            c.node(node, label=label_of(ast.match))
            tie_to(node)

            coming_from = [node]

        elif isinstance(ast, CaseNode):
            start_node = make_id()
            c.node(start_node, "", style="filled", shape="circle", color="grey")
            tie_to(start_node)

            next_coming_from = []
            
            for empty_matches in ast.empty_matches:
                for empty_match in empty_matches:
                    if empty_match is None:
                        ematch_node = make_id()
                        c.node(ematch_node, "else", color="orange")
                    else:
                        ematch_node = make_id()
                        c.node(ematch_node, label_of(empty_match), color="orange")

                    tie_to(ematch_node, [start_node], extra_kwargs={"label": "\n".join(label_of(x) for x in ast.case_match_actions[empty_matches])})
                    next_coming_from.append(ematch_node)

            for real_matches, sub_ast in ast.sub_matches.items():
                sub_coming_from = []
                for real_match in real_matches:
                    if real_match is None:
                        ematch_node = make_id()
                        c.node(ematch_node, "else")
                    else:
                        ematch_node = make_id()
                        c.node(ematch_node, label_of(real_match))

                    tie_to(ematch_node, [start_node], extra_kwargs={"label": "\n".join(label_of(x) for x in ast.case_match_actions[real_matches])})
                    sub_coming_from.append(ematch_node)

                next_coming_from.extend(debug_dump_ast(sub_ast, into=c, coming_from=sub_coming_from, make_id=make_id, make_subgraph=make_subgraph))

            coming_from = next_coming_from

        elif isinstance(ast, IfElseNode):
            start_node = make_id()
            c.node(start_node, "", style="filled", shape="circle", color="grey")
            tie_to(start_node)

            next_coming_from = []

            for j, condition in enumerate(ast.branches):
                sub_ast = ast.branch_bodies[condition]
                sub_coming_from = []
                ematch_node = make_id()
                c.node(ematch_node, f"{j}: {label_of(condition)}")

                tie_to(ematch_node, [start_node], extra_kwargs={"label": "\n".join(label_of(x) for x in ast.branch_actions[condition])})
                sub_coming_from.append(ematch_node)

                if sub_ast:
                    next_coming_from.extend(debug_dump_ast(sub_ast, into=c, coming_from=sub_coming_from, make_id=make_id, make_subgraph=make_subgraph))
                else:
                    next_coming_from.append(ematch_node)

            coming_from = next_coming_from
        
        elif isinstance(ast, OptionalNode):
            # List the adopted actions
            for name, l in zip(("start", "finish"), (ast.start_actions, ast.finish_actions)):
                if not l:
                    continue
                node = make_id()
                c.node(node, f"{name}: {','.join(label_of(x) for x in l)}", style="filled", color="white")

            start_node = make_id()
            c.node(start_node, "", style="filled", shape="circle", color="grey")
            tie_to(start_node)

            coming_from = [start_node, *debug_dump_ast(ast.sub_contents, into=c, coming_from=[start_node], make_id=make_id, make_subgraph=make_subgraph)]
        
        elif isinstance(ast, LoopNode):
            start_node = make_id()
            c.node(start_node, "", style="filled", shape="circle", color="grey")
            tie_to(start_node)

            end_node = make_id()
            c.node(end_node, "end", shape="circle", color="orange")
            coming_from = [end_node]

            if ast.loop_start_actions:
                c.node(make_id(), f"start: " + ",".join(label_of(x) for x in ast.loop_start_actions), style="filled", color="white")

            into.edge(start_node, end_node, label="break\n" + "\n".join(label_of(x) for x in ast.after_break_actions), color="blue")

            tie_to(end_node, cfrm=debug_dump_ast(ast.child_node, into=c, coming_from=[start_node], make_id=make_id, make_subgraph=make_subgraph))

        elif isinstance(ast, TryExceptNode):
            next_coming_from = debug_dump_ast(ast.body, into=c, coming_from=coming_from, make_id=make_id, make_subgraph=make_subgraph)

            handler_start = make_id()
            c.node(handler_start, "catch " + ",".join(x.value for x in ast.handles), color="orange")

            if ast.incoming_handler_actions:
                c.node(make_id(), f"hstart: " + ",".join(label_of(x) for x in ast.incoming_handler_actions), style="filled", color="white")

            if ast.after_actions:
                c.node(make_id(), f"finish: " + ",".join(label_of(x) for x in ast.after_actions), style="filled", color="white")

            if not ast.handles:
                next_coming_from.append(handler_start)
            elif ast.handler is not None:
                next_coming_from.extend(debug_dump_ast(ast.handler, into=c, coming_from=[handler_start], make_id=make_id, make_subgraph=make_subgraph))

            coming_from = next_coming_from

        elif isinstance(ast, ForeachNode):
            next_coming_from = debug_dump_ast(ast.child_node, into=c, coming_from=coming_from, make_id=make_id, make_subgraph=make_subgraph)

            handler_start = make_id()
            if ast.each_actions:
                c.node(make_id(), f"each: " + ",".join(label_of(x) for x in ast.each_actions), style="filled", color="white")

            if ast.after_actions:
                c.node(make_id(), f"finish: " + ",".join(label_of(x) for x in ast.after_actions), style="filled", color="white")

            coming_from = next_coming_from

        else:
            node = make_id()
            c.node(node, "?", color="blue")
            tie_to(node)
            coming_from = [node]
            
    if ast.get_next():
        return debug_dump_ast(ast.get_next(), into=into, coming_from=coming_from, make_id=make_id, make_subgraph=make_subgraph)
    return coming_from

def debug_dump_regextree(rx, indent=0): # pragma: no cover
    def lprint(*args, **kwargs):
        print(" "*indent, end="")
        print(*args, **kwargs)
    if isinstance(rx, RegexCharClass):
        lprint(repr(rx))
    elif isinstance(rx, RegexSequence):
        lprint("seq")
        for i in rx.sub_matches:
            debug_dump_regextree(i, indent=indent+1)
    elif isinstance(rx, RegexAlternation):
        lprint("alt")
        for i in rx.sub_matches:
            debug_dump_regextree(i, indent=indent+1)
    elif isinstance(rx, RegexKleene):
        lprint("kleene")
        debug_dump_regextree(rx.sub_match, indent=indent+1)
    elif isinstance(rx, RegexOptional):
        lprint("optional")
        debug_dump_regextree(rx.sub_match, indent=indent+1)

def debug_dump_datatree(v: object, indent=0, disallow=None, target=sys.stdout): # pragma: no cover
    if v is None:
        for key in ProgramData._children.copy():
            if ProgramData.lookup(key, DTAG.PARENT, recurse_upwards=False) is None:
                if ProgramData.do(ProgramFlag.DEBUG_DTREE_HIDE_GC) and (key not in ProgramData._refmap or ProgramData._refmap[key]() is None):
                    continue
                debug_dump_datatree(key, target=target)
        return

    def lprint(*args, **kwargs):
        nonlocal indent, target

        if target is None:
            return

        print(" "*indent, end="", file=target)
        print(*args, **kwargs, file=target)

    if disallow is not None:
        if v in disallow or id(v) in disallow:
            lprint("<recerr>")
            return
        disallow = [*disallow, v]
    else:
        disallow = [v]

    if type(v) is int and v in ProgramData._refmap and ProgramData._refmap[v]() is not None:
        v = ProgramData._refmap[v]()

    name = ProgramData.lookup(v, DTAG.NAME, recurse_upwards=False)
    if name is None:
        if type(v) is int:
            if ProgramData.do(ProgramFlag.DEBUG_DTREE_HIDE_GC):
                lprint("<gcd>")
                return
            lprint("<unk>")
        else:
            lprint(repr(v))
    else:
        lprint(f"{name} ({v!r})")

    if type(v) is not int:
        v = id(v)

    for tag in DTAG:
        if tag in (DTAG.PARENT, DTAG.NAME): continue
        aux = ProgramData.lookup(v, tag, recurse_upwards=False, recurse_downwards=False)
        if aux is not None:
            lprint(f" {tag}: {aux}")

    for i in ProgramData._children[v]:
        if id(ProgramData.lookup(i, DTAG.PARENT)) != v:
            continue
        debug_dump_datatree(i, indent+2, disallow, target=target)

def debug_dump_datatree_graph(v: object, out_name: str = "dtree"):
    if not debug_enabled:
        raise RuntimeError("Debugging was disabled! You probably need to install graphviz")

    anon_counter = 0

    def newid():
        nonlocal anon_counter
        anon_counter += 1
        return f"anon-{anon_counter}"

    g = graphviz.Graph(name='dfa', comment=ProgramData.lookup(v, DTAG.NAME))
    g.attr(rankdir="LR")

    def escape(x: str):
        return graphviz.escape(x).replace("<", "\\<").replace(">", "\\>").replace("{", "\\{").replace("}", "\\}").replace("\n", "\\n")

    def aux(v: object, disallow: list) -> str:
        nonlocal g

        if v in disallow or id(v) in disallow:
            nid = newid()
            g.node(nid, "<recerr>", color="red")
            return nid

        disallow = [v, *disallow]

        if type(v) is int and v in ProgramData._refmap and ProgramData._refmap[v]() is not None:
            v = ProgramData._refmap[v]()

        nid = str(id(v) if type(v) is not int else v)

        name = ProgramData.lookup(v, DTAG.NAME, recurse_upwards=False)
        if name is None:
            if type(v) is int and ProgramData.do(ProgramFlag.DEBUG_DTREE_HIDE_GC):
                g.node(nid, "<gcd>", color="grey")
                return nid
            elif type(v) is int:
                name = "<unk>"
            else:
                name = repr(v)

        auxdat = []
        for tag in DTAG:
            if tag in (DTAG.PARENT, DTAG.NAME): continue
            val = ProgramData.lookup(v, tag, recurse_upwards=False, recurse_downwards=False)
            if val is not None:
                auxdat.append(f"{tag}: {val}")

        auxdat = '\n'.join(auxdat)
        if auxdat:
            contents = graphviz.nohtml(f"<head>{escape(name)}|{escape(auxdat)}")
        else:
            contents = graphviz.nohtml(f"<head>{escape(name)}")
        g.node(nid, contents, shape="record")
        
        if type(v) is not int:
            v = id(v)

        for i in ProgramData._children[v]:
            if id(ProgramData.lookup(i, DTAG.PARENT)) != v:
                continue
            childid = aux(i, disallow)
            g.edge(nid, childid)

        return nid + ":head"

    if v is None:
        for key in ProgramData._children.copy():
            if ProgramData.lookup(key, DTAG.PARENT, recurse_upwards=False) is None:
                if ProgramData.do(ProgramFlag.DEBUG_DTREE_HIDE_GC) and (key not in ProgramData._refmap or ProgramData._refmap[key]() is None):
                    continue
                aux(key, [])
    else:
        aux(v, [])

    if ProgramData.option(ProgramOption.DEBUG_GRAPH_DUMP_FORMAT) == "dot":
        g.save(out_name + ".dot")
    else:
        g.render(out_name, format=ProgramData.option(ProgramOption.DEBUG_GRAPH_DUMP_FORMAT), cleanup=True)


def main(): # pragma: no cover
    try:
        input_file, program_name = ProgramData.load_commandline_flags(sys.argv[1:])
    except RuntimeError as e:
        print(str(e), file=sys.stderr)
        print("Try nmfu --help for more information", file=sys.stderr)
        exit(1)

    try:
        with open(input_file) as f:
            contents = f.read()
    except (IOError, UnicodeDecodeError) as e:
        print("Unable to read input file:", str(e), file=sys.stderr)
        exit(2)

    draws_graphs = any(ProgramData.dump(x) for x in (DebugDumpable.AST, DebugDumpable.DFA)) or (ProgramData.dump(DebugDumpable.DTREE) and ProgramData.do(ProgramFlag.DEBUG_DTREE_AS_GRAPH))
    if draws_graphs and not debug_enabled:
        print("The requested dumps need the graphviz package (install nmfu[debug])", file=sys.stderr)
        exit(1)

    ProgramData.load_source(contents)
    try:
        parse_tree = parser.parse(contents, start="start")
    except lark.LarkError as e:
        print("Syntax error:", str(e), file=sys.stderr)
        exit(3)

    if ProgramData.dump(DebugDumpable.PARSE):
        try:
            lark.tree.pydot__tree_to_png(parse_tree, ProgramData.dump_prefix + ".parse.png")
        except ImportError as e:
            print("Dumping the parse tree needs the pydot package:", str(e), file=sys.stderr)
            exit(1)

    pctx = ParseCtx(parse_tree)

    try:
        pctx.parse()
    except NMFUError as e:
        if ProgramData.dump(DebugDumpable.TRACEBACK):
            raise
        else:
            print("Parse error:", str(e), file=sys.stderr)
            exit(4)

    # (a parser made of actions only has no tree to draw; compiling it says so)
    if ProgramData.dump(DebugDumpable.AST) and pctx.ast is not None: debug_dump_ast(pctx.ast, ProgramData.dump_prefix + ".ast")

    try:
        dctx = DfaCompileCtx(pctx)
        try:
            dctx.compile()
        except NMFUError as e:
            if ProgramData.dump(DebugDumpable.TRACEBACK):
                raise
            else:
                print("Compile error:", str(e), file=sys.stderr)
                exit(5)

        if ProgramData.dump(DebugDumpable.DFA): debug_dump_dfa(dctx.dfa, ProgramData.dump_prefix + ".dfa")
        if ProgramData.dry_run:
            print("... dry run, skipping code generation")
            exit(0)

        cctx = CodegenCtx(dctx, program_name)
        try:
            header = cctx.generate_header()
            source = cctx.generate_source()
        except NMFUError as e:
            if ProgramData.dump(DebugDumpable.TRACEBACK):
                raise
            else:
                print("Codegen error:", str(e), file=sys.stderr)
                exit(5)
    finally:
        if ProgramData.dump(DebugDumpable.DTREE): 
            if ProgramData.do(ProgramFlag.DEBUG_DTREE_AS_GRAPH):
                debug_dump_datatree_graph(None, ProgramData.dump_prefix + ".dtree")
            else:
                debug_dump_datatree(None)

    try:
        with open(program_name + ".h", "w") as f:
            f.write(header)
        with open(program_name + ".c", "w") as f:
            f.write(source)
    except IOError as e:
        print("Unable to write output file:", str(e), file=sys.stderr)
        exit(6)

if __name__ == "__main__":
    main()
