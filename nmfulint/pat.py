"""Structural source patterns with metavariables, so that rules match *constructs* and survive renaming of locals.

Pattern syntax = Python source in which
    $name   is a metavariable that matches any identifier (Name / parameter / attribute-free name), consistently within one match;
    $$name  matches any expression (consistently: a second occurrence must be structurally equal);
    $_      matches any expression, no binding.
A statement pattern of N statements matches N consecutive statements of any statement list.
"""
import ast, re

_MV = re.compile(r"\$\$(\w+)|\$(\w+)")


def _prep(src):
    def rep(m):
        if m.group(1):
            return "__E_" + m.group(1)
        return "__V_" + m.group(2)
    return _MV.sub(rep, src)


_cache = {}


def pattern(src, mode):
    key = (src, mode)
    if key not in _cache:
        p = ast.parse(_prep(src.strip()), mode="eval" if mode == "expr" else "exec")
        _cache[key] = p.body
    return _cache[key]


IGNORED_FIELDS = {"ctx", "lineno", "col_offset", "end_lineno", "end_col_offset", "type_comment", "kind"}


def _is_ellipsis_body(p):
    return isinstance(p, list) and len(p) == 1 and isinstance(p[0], ast.Expr) and isinstance(p[0].value, ast.Constant) and p[0].value.value is Ellipsis


def _match(p, n, b):
    if _is_ellipsis_body(p) and isinstance(n, list):
        return True
    if isinstance(p, ast.Constant) and p.value is Ellipsis and isinstance(n, ast.AST):
        return True      # `...` in expression position matches any expression
    if isinstance(p, ast.Name):
        if p.id == "__V__":
            return isinstance(n, ast.AST)
        if p.id.startswith("__A_"):
            # automatic metavariable (a local of the anchored function): it stands for a local under another name - never for a builtin, a module-level name
            # or a parameter (`epsilon_closure(x)` must not match `frozenset(x)`)
            if not isinstance(n, ast.Name) or n.id in _CURRENT_FIXED[0]:
                return False
            k = p.id[4:]
            if k in b:
                return b[k] == n.id
            b[k] = n.id
            return True
        if p.id.startswith("__V_"):
            if not isinstance(n, ast.Name):
                return False
            k = p.id[4:]
            if k in b:
                return b[k] == n.id
            b[k] = n.id
            return True
        if p.id.startswith("__E_"):
            k = "$" + p.id[4:]
            d = ast.dump(n) if isinstance(n, ast.AST) else repr(n)
            if k in b:
                return b[k] == d
            b[k] = d
            return True
    if isinstance(p, ast.arg) and p.arg.startswith("__V_"):
        if not isinstance(n, ast.arg):
            return False
        k = p.arg[4:]
        if k in b:
            return b[k] == n.arg
        b[k] = n.arg
        return True
    if type(p) is not type(n):
        return False
    if isinstance(p, ast.AST):
        for f in p._fields:
            if f in IGNORED_FIELDS:
                continue
            if f == "orelse" and isinstance(p, (ast.If, ast.For, ast.While)) and not p.orelse:
                continue     # a pattern without else/elif says nothing about the else part
            if not _match(getattr(p, f, None), getattr(n, f, None), b):
                return False
        return True
    if isinstance(p, list):
        if not isinstance(n, list):
            return False
        if any(_is_ellipsis_stmt(x) for x in p):
            return _match_glob(p, n, b)
        if len(p) != len(n):
            return False
        return all(_match(x, y, b) for x, y in zip(p, n))
    return p == n


def _is_ellipsis_stmt(x):
    return isinstance(x, ast.Expr) and isinstance(x.value, ast.Constant) and x.value.value is Ellipsis


def _match_glob(p, n, b):
    """Statement-list match where a `...` statement stands for any run (possibly empty) of statements."""
    if not p:
        return not n
    if _is_ellipsis_stmt(p[0]):
        for k in range(len(n) + 1):
            b2 = dict(b)
            if _match_glob(p[1:], n[k:], b2):
                b.clear(); b.update(b2)
                return True
        return False
    if not n:
        return False
    b2 = dict(b)
    if _match(p[0], n[0], b2) and _match_glob(p[1:], n[1:], b2):
        b.clear(); b.update(b2)
        return True
    return False


def match_expr(src, node, binds=None):
    """Match expression pattern against an expression node. Returns bindings dict or None."""
    b = dict(binds or {})
    return b if _match(pattern(src, "expr"), node, b) else None


def match_stmts(src, stmts, binds=None):
    """Match a statement-sequence pattern against exactly these statements."""
    p = pattern(src, "stmt")
    b = dict(binds or {})
    return b if _match(p, list(stmts), b) else None


def find_expr(root, src, binds=None):
    """All (node, bindings) in `root` matching the expression pattern."""
    out = []
    nodes = ast.walk(root) if isinstance(root, ast.AST) else [x for r in root for x in ast.walk(r)]
    for n in nodes:
        if isinstance(n, ast.expr):
            b = match_expr(src, n, binds)
            if b is not None:
                out.append((n, b))
    return out


def find_stmts(root, src, binds=None):
    """All (first statement, bindings) where consecutive statements in some body of `root` match the statement pattern."""
    p = pattern(src, "stmt")
    k = len(p)
    out = []
    roots = [root] if isinstance(root, ast.AST) else list(root)
    seen = set()
    for r in roots:
        for n in ast.walk(r):
            for f in ("body", "orelse", "finalbody"):
                lst = getattr(n, f, None)
                if isinstance(lst, list) and lst and isinstance(lst[0], ast.stmt) and id(lst) not in seen:
                    seen.add(id(lst))
                    for i in range(0, len(lst) - k + 1):
                        b = dict(binds or {})
                        if _match(p, lst[i:i + k], b):
                            out.append((lst[i], b))
    return out


def has_expr(root, src, binds=None):
    return bool(find_expr(root, src, binds))


def has_stmts(root, src, binds=None):
    return bool(find_stmts(root, src, binds))


# ---------------------------------------------------------------------------------------------
# automatic metavariables: in a pattern written with today's names, every bare name that is not a parameter of the function, a
# module-level name or a builtin is a *local* of the function and is treated as a metavariable - so renaming locals cannot break a rule.
import builtins as _bi

_BUILTINS = set(dir(_bi))


def global_names(model):
    g = getattr(model, "_global_names", None)
    if g is None:
        g = set(model.classes) | set(model.module_assigns)
        for st in model.tree.body:
            if isinstance(st, (ast.FunctionDef, ast.ClassDef)):
                g.add(st.name)
            elif isinstance(st, (ast.Import, ast.ImportFrom)):
                for a in st.names:
                    g.add((a.asname or a.name).split(".")[0])
            elif isinstance(st, ast.Try):
                for x in ast.walk(st):
                    if isinstance(x, (ast.Import, ast.ImportFrom)):
                        for a in x.names:
                            g.add((a.asname or a.name).split(".")[0])
        model._global_names = g
    return g


def _fixed_names(model, fn):
    fixed = set(global_names(model)) | _BUILTINS
    n = fn
    while n is not None:
        if isinstance(n, (ast.FunctionDef, ast.AsyncFunctionDef, ast.Lambda)):
            a = n.args
            for x in a.args + a.kwonlyargs + a.posonlyargs:
                fixed.add(x.arg)
            if a.vararg:
                fixed.add(a.vararg.arg)
            if a.kwarg:
                fixed.add(a.kwarg.arg)
        n = model.parents.get(n)
    return fixed


class _Auto(ast.NodeTransformer):
    def __init__(self, fixed):
        self.fixed = fixed

    def visit_Name(self, node):
        if node.id in self.fixed or node.id.startswith("__V_") or node.id.startswith("__E_"):
            return node
        return ast.copy_location(ast.Name(id="__A_" + node.id, ctx=node.ctx), node)


_auto_cache = {}


def _auto_pattern(model, fn, src, mode):
    key = (id(model), id(fn), src, mode)
    if key not in _auto_cache:
        tree = ast.parse(_prep(src.strip()), mode="eval" if mode == "expr" else "exec")
        tree = _Auto(_fixed_names(model, fn)).visit(tree)
        _auto_cache[key] = tree.body
    return _auto_cache[key]


def ahas(model, fn, src, root=None):
    """Does function `fn` (or the sub-tree `root` of it) contain the construct `src`? `src` is written with today's names; locals are
    matched as metavariables. Tries a statement-sequence pattern first, then an expression pattern."""
    return bool(afind(model, fn, src, root))


_CURRENT_FIXED = [frozenset()]


def afind(model, fn, src, root=None):
    _CURRENT_FIXED[0] = _fixed_names(model, fn)
    root = fn if root is None else root
    out = []
    try:
        p = _auto_pattern(model, fn, src, "stmt")
        only_expr = len(p) == 1 and isinstance(p[0], ast.Expr) and not isinstance(p[0].value, (ast.Call, ast.Constant, ast.Await, ast.Yield))
    except SyntaxError:
        p, only_expr = None, True
    roots = [root] if isinstance(root, ast.AST) else list(root)
    if p is not None and not only_expr:
        k = len(p)
        if not isinstance(root, ast.AST) and roots and all(isinstance(x, ast.stmt) for x in roots):
            for i in range(0, len(roots) - k + 1):     # the given statement list itself
                b = {}
                if _match(p, roots[i:i + k], b):
                    out.append((roots[i], b))
        for r in roots:
            for n in ast.walk(r):
                for f in ("body", "orelse", "finalbody"):
                    lst = getattr(n, f, None)
                    if isinstance(lst, list) and lst and isinstance(lst[0], ast.stmt):
                        if any(_is_ellipsis_stmt(x) for x in p):
                            # a `...` statement stands for any run: the match may span any window of the block
                            for i in range(len(lst)):
                                hit = False
                                for j in range(len(lst), i, -1):
                                    b = {}
                                    if _match(p, lst[i:j], b):
                                        out.append((lst[i], b))
                                        hit = True
                                        break
                            continue
                        for i in range(0, len(lst) - k + 1):
                            b = {}
                            if _match(p, lst[i:i + k], b):
                                out.append((lst[i], b))
        if out or not (len(p) == 1 and isinstance(p[0], ast.Expr)):
            return out
    pe = _auto_pattern(model, fn, src, "expr") if p is None else p[0].value
    for r in roots:
        for n in ast.walk(r):
            if isinstance(n, ast.expr):
                b = {}
                if _match(pe, n, b):
                    out.append((n, b))
    return out


def shape(model, fn, node):
    """Rename-invariant text of `node` (a sub-tree of function `fn`): local names are replaced by _1, _2, ... in order of first appearance."""
    import copy
    fixed = _fixed_names(model, fn)
    names = {}

    class R(ast.NodeTransformer):
        def visit_Name(self, n):
            if n.id in fixed:
                return n
            names.setdefault(n.id, f"_{len(names) + 1}")
            return ast.copy_location(ast.Name(id=names[n.id], ctx=n.ctx), n)
    return ast.unparse(R().visit(copy.deepcopy(node)))
