"""Structural source patterns with metavariables, so that rules match *constructs* and survive renaming of locals.

Pattern syntax = Python source in which
    $name   is a metavariable that matches any identifier (Name / parameter / attribute-free name), consistently within one match;
    $$name  matches any expression (consistently: a second occurrence must be structurally equal);
    $_      matches any expression, no binding.
A statement pattern of N statements matches N consecutive statements of any statement list.
"""
import ast, re

_MV = re.compile(r"\$\$(\w+)|\$(\w+)")


def _prep(src):
    def rep(m):
        if m.group(1):
            return "__E_" + m.group(1)
        return "__V_" + m.group(2)
    return _MV.sub(rep, src)


_cache = {}


def pattern(src, mode):
    key = (src, mode)
    if key not in _cache:
        p = ast.parse(_prep(src.strip()), mode="eval" if mode == "expr" else "exec")
        _cache[key] = p.body
    return _cache[key]


IGNORED_FIELDS = {"ctx", "lineno", "col_offset", "end_lineno", "end_col_offset", "type_comment", "kind"}


def _match(p, n, b):
    if isinstance(p, ast.Name):
        if p.id == "__V__":
            return isinstance(n, ast.AST)
        if p.id.startswith("__V_"):
            if not isinstance(n, ast.Name):
                return False
            k = p.id[4:]
            if k in b:
                return b[k] == n.id
            b[k] = n.id
            return True
        if p.id.startswith("__E_"):
            k = "$" + p.id[4:]
            d = ast.dump(n) if isinstance(n, ast.AST) else repr(n)
            if k in b:
                return b[k] == d
            b[k] = d
            return True
    if isinstance(p, ast.arg) and p.arg.startswith("__V_"):
        if not isinstance(n, ast.arg):
            return False
        k = p.arg[4:]
        if k in b:
            return b[k] == n.arg
        b[k] = n.arg
        return True
    if type(p) is not type(n):
        return False
    if isinstance(p, ast.AST):
        for f in p._fields:
            if f in IGNORED_FIELDS:
                continue
            if not _match(getattr(p, f, None), getattr(n, f, None), b):
                return False
        return True
    if isinstance(p, list):
        if len(p) != len(n):
            return False
        return all(_match(x, y, b) for x, y in zip(p, n))
    return p == n


def match_expr(src, node, binds=None):
    """Match expression pattern against an expression node. Returns bindings dict or None."""
    b = dict(binds or {})
    return b if _match(pattern(src, "expr"), node, b) else None


def match_stmts(src, stmts, binds=None):
    """Match a statement-sequence pattern against exactly these statements."""
    p = pattern(src, "stmt")
    b = dict(binds or {})
    return b if _match(p, list(stmts), b) else None


def find_expr(root, src, binds=None):
    """All (node, bindings) in `root` matching the expression pattern."""
    out = []
    nodes = ast.walk(root) if isinstance(root, ast.AST) else [x for r in root for x in ast.walk(r)]
    for n in nodes:
        if isinstance(n, ast.expr):
            b = match_expr(src, n, binds)
            if b is not None:
                out.append((n, b))
    return out


def find_stmts(root, src, binds=None):
    """All (first statement, bindings) where consecutive statements in some body of `root` match the statement pattern."""
    p = pattern(src, "stmt")
    k = len(p)
    out = []
    roots = [root] if isinstance(root, ast.AST) else list(root)
    seen = set()
    for r in roots:
        for n in ast.walk(r):
            for f in ("body", "orelse", "finalbody"):
                lst = getattr(n, f, None)
                if isinstance(lst, list) and lst and isinstance(lst[0], ast.stmt) and id(lst) not in seen:
                    seen.add(id(lst))
                    for i in range(0, len(lst) - k + 1):
                        b = dict(binds or {})
                        if _match(p, lst[i:i + k], b):
                            out.append((lst[i], b))
    return out


def has_expr(root, src, binds=None):
    return bool(find_expr(root, src, binds))


def has_stmts(root, src, binds=None):
    return bool(find_stmts(root, src, binds))
