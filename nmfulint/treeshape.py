"""E10 parse-tree shape typing: an interprocedural abstract interpretation of the front end over *grammar shapes*.

Every value that holds a lark parse tree node is typed by the set of shapes it can have: a token of a named terminal, or a tree
with a given label built by a given expansion of the embedded grammar (its exact child sequence, repetitions unrolled). The types
are seeded from the grammar's start rules (`find_data(label)`, the `children` of a typed tree, constructor / method arguments) and
pushed through assignments, loops, slices, calls and the label / length / kind tests of the code (`x.data == ".."`, `x.data in
(..)`, `len(x.children) == n`, `if x.children`, `isinstance(x, lark.Token)`), so that at every access

    X.children[i]        the index exists in every expansion that can reach the access        (else: IndexError)
    X.value / X.type     X is a token in every shape                                           (else: AttributeError: 'Tree' ...)
    X.data / X.children  X is a tree in every shape                                            (else: AttributeError: 'Token' ...)
    {..}[X.data]         every label X can carry is a key; {..}[T.value]: every spelling of the finite terminal is a key (KeyError)

is decided *for every tree the grammar can produce* - i.e. for every syntactically valid source - not for sampled programs.

Soundness posture: a violation is only reported for a value of *exact* provenance (derived from the grammar through operations this
module models exactly). Anything else (macro argument trees looked up at run time, values through containers the module does not
model, unknown calls) is `inexact`: it is propagated so that types stay useful, but accesses on it are only counted, never reported.
Nothing here imports or runs nmfu; the grammar string is loaded as data by the tooling's lark.
"""
import ast, math, re
from .core import AnalysisError
from .grammar import TOK

INF = math.inf
K = 9            # unrolling bound: child sequences are exact up to K children, longer ones are kept as (first K, last K)

TOKEN_ATTRS = {"value", "type", "line", "column", "end_line", "end_column", "start_pos", "end_pos"}
TREE_ATTRS = {"data", "children", "meta", "find_data", "iter_subtrees", "find_pred", "pretty"}


# ------------------------------------------------------------------------------------------------ grammar side
class Shapes:
    """label -> list of expansions; expansion = list of elements ('one', items) | ('rep', [items..], minreps) | ('var', items, lo, hi)."""

    def __init__(self, g):
        self.g = g
        self.exp = {}
        for n, rs in g.rules.items():
            if n.startswith("_"):
                continue
            for r in rs:
                expand1 = bool(r.options and r.options.expand1) and not r.alias
                lab = str(r.alias) if r.alias else n
                els = self._elements(r.expansion)
                lo = sum(self._elmin(e) for e in els)
                hi = sum(self._elmax(e) for e in els)
                if expand1 and lo == hi == 1:
                    continue
                self.exp.setdefault(lab, []).append({"origin": n, "els": els, "expand1": expand1, "text": self._text(r)})
        self._unrolled = {}

    @staticmethod
    def _text(r):
        return " ".join(str(s.name) for s in r.expansion)

    @staticmethod
    def _elmin(e):
        return 1 if e[0] == "one" else (len(e[1]) * e[2] if e[0] == "rep" else e[2])

    @staticmethod
    def _elmax(e):
        return 1 if e[0] == "one" else (INF if e[0] == "rep" else e[3])

    def _helper_group(self, name):
        """`__x_star_N -> G | __x_star_N G` with G made of single-child symbols: the list of item sets of G, else None."""
        rs = self.g.rules.get(name, [])
        if len(rs) != 2:
            return None
        base = [r for r in rs if not any(str(s.name) == name for s in r.expansion)]
        rec = [r for r in rs if any(str(s.name) == name for s in r.expansion)]
        if len(base) != 1 or len(rec) != 1:
            return None
        b, rr = base[0].expansion, rec[0].expansion
        if str(rr[0].name) != name or [str(s.name) for s in rr[1:]] != [str(s.name) for s in b]:
            return None
        out = []
        for s in b:
            c = self.g._sym_count(s)
            if c == (0, 0):
                continue
            if c != (1, 1):
                return None
            out.append(frozenset(self.g._sym_items(s)))
        return out or None

    def _elements(self, expansion):
        els = []
        for s in expansion:
            c = self.g._sym_count(s)
            if c == (0, 0):
                continue
            name = str(s.name)
            items = frozenset(self.g._sym_items(s))
            if c == (1, 1):
                els.append(("one", items))
                continue
            grp = self._helper_group(name) if (not s.is_term) else None
            if grp is not None:
                els.append(("rep", grp, 1))
            else:
                els.append(("var", items, c[0], c[1]))
        return els

    def labels(self):
        return set(self.exp)

    def n_exp(self, label):
        return len(self.exp.get(label, ()))

    def unroll(self, label, idx):
        """All child sequences of expansion `idx` of `label`: list of (head, tail, n) with n = exact length or None when longer than K
        (head = first K item sets, tail = last K item sets)."""
        key = (label, idx)
        if key in self._unrolled:
            return self._unrolled[key]
        els = self.exp[label][idx]["els"]
        fw = self._unroll(els)
        exact = [(seq, seq, len(seq)) for seq, tr in fw if not tr]
        heads = {seq for seq, tr in fw if tr}
        res = list(dict.fromkeys(exact))
        if heads:
            rels = []
            for e in reversed(els):
                rels.append(("rep", list(reversed(e[1])), e[2]) if e[0] == "rep" else e)
            tails = {tuple(reversed(seq)) for seq, tr in self._unroll(rels) if tr}
            for h in sorted(heads, key=repr):
                for t in sorted(tails, key=repr):
                    res.append((h, t, None))
        self._unrolled[key] = res
        return res

    @staticmethod
    def _unroll(els):
        out = set()

        def rec(i, acc):
            if len(acc) > K:
                out.add((tuple(acc[:K]), True))
                return
            if i == len(els):
                out.add((tuple(acc), False))
                return
            e = els[i]
            if e[0] == "one":
                rec(i + 1, acc + [e[1]])
            elif e[0] == "rep":
                k = e[2]
                while True:
                    na = acc + list(e[1]) * k
                    rec(i + 1, na)
                    if len(na) > K:
                        break
                    k += 1
            else:
                k = e[2]
                while k <= e[3]:
                    na = acc + [e[1]] * k
                    rec(i + 1, na)
                    if len(na) > K:
                        break
                    k += 1
        rec(0, [])
        return out


# ------------------------------------------------------------------------------------------------ abstract values
class TV:
    """A parse tree node: shapes = frozenset of ('tok', NAME) | ('tree', label, expansion index, lo, hi)  (lo..hi: child count known from tests)."""
    __slots__ = ("shapes", "exact")

    def __init__(self, shapes, exact=True):
        self.shapes = frozenset(shapes)
        self.exact = exact

    def __repr__(self):
        return f"TV({'' if self.exact else '~'}{sorted(self.labels())})"

    def labels(self):
        return {(TOK(s[1]) if s[0] == "tok" else s[1]) for s in self.shapes}

    def toks(self):
        return {s[1] for s in self.shapes if s[0] == "tok"}

    def trees(self):
        return {s for s in self.shapes if s[0] == "tree"}


class LV:
    """A list of nodes: concs = frozenset of (head, tail, n) child sequences (see Shapes.unroll), or a homogeneous list of `elem`."""
    __slots__ = ("concs", "elem", "exact", "owner", "src")

    def __init__(self, concs=None, elem=None, exact=True, owner=None, src=None):
        self.concs = None if concs is None else frozenset(concs)
        self.elem = elem
        self.exact = exact
        self.owner = owner      # description of where the sequences come from (for messages)
        self.src = src          # (access path of the tree whose children these are, slice or None): re-derived when that tree is narrowed later

    def __repr__(self):
        return f"LV({'' if self.exact else '~'}{len(self.concs) if self.concs is not None else self.elem})"


class StrOf:
    """The string `X.data` / `T.value` / `T.type` of a typed node (kept so that `{..}[X.data]` and comparisons can be decided).
    smap: label -> the string currently held for it (a prefix may have been stripped: `d = d[len("binary_"):]`), None = the label itself."""
    __slots__ = ("tv", "attr", "path", "smap")

    def __init__(self, tv, attr, path, smap=None):
        self.tv, self.attr, self.path, self.smap = tv, attr, path, smap

    def string_of(self, label):
        return label if self.smap is None else self.smap.get(label, label)

    def restricted(self, keep_shapes):
        return StrOf(TV(keep_shapes, self.tv.exact), self.attr, self.path, self.smap)


class StrSet:
    """A local list / tuple / set of constant strings (e.g. `BANNED_TYPES = ["end_expr", ...]`)."""
    __slots__ = ("strs",)

    def __init__(self, strs):
        self.strs = frozenset(strs)


class LenOf:
    __slots__ = ("path", "lv")

    def __init__(self, path, lv):
        self.path, self.lv = path, lv


def join(a, b):
    if a is None or b is None:
        return a if b is None else b if a is None else None
    if isinstance(a, StrSet) and isinstance(b, StrSet):
        return a if a.strs == b.strs else None
    if isinstance(a, StrOf) and isinstance(b, StrOf):
        if a.path != b.path or a.attr != b.attr:
            return None
        sm = None
        if a.smap is not None or b.smap is not None:
            sm = {}
            for x in (a, b):
                for s in x.tv.shapes:
                    if s[0] == "tree":
                        v = x.string_of(s[1])
                        if sm.get(s[1], v) != v:
                            return None
                        sm[s[1]] = v
        return StrOf(TV(a.tv.shapes | b.tv.shapes, a.tv.exact and b.tv.exact), a.attr, a.path, sm)
    if isinstance(a, TV) and isinstance(b, TV):
        return TV(a.shapes | b.shapes, a.exact and b.exact)
    if isinstance(a, LV) and isinstance(b, LV):
        if a.concs is not None and b.concs is not None:
            return LV(a.concs | b.concs, None, a.exact and b.exact, a.owner or b.owner)
        ea, eb = elem_of(a), elem_of(b)
        return LV(None, join(ea, eb), False)
    return None


def same(a, b):
    if type(a) is not type(b):
        return False
    if isinstance(a, StrSet):
        return a.strs == b.strs
    if isinstance(a, StrOf):
        return a.path == b.path and a.attr == b.attr and a.smap == b.smap and same(a.tv, b.tv)
    if isinstance(a, TV):
        return a.shapes == b.shapes and a.exact == b.exact
    if isinstance(a, LV):
        return a.concs == b.concs and a.exact == b.exact and same(a.elem, b.elem) if (a.elem is not None or b.elem is not None) else (a.concs == b.concs and a.exact == b.exact)
    return a is b


def elem_of(lv):
    if lv.elem is not None or lv.concs is None:
        return lv.elem
    return None


# ------------------------------------------------------------------------------------------------ the interpreter
class Finding:
    def __init__(self, kind, func, construct, message):
        self.kind, self.func, self.construct, self.message = kind, func, construct, message


class TreeShapeAnalysis:
    # attribute names that hold parse trees handed over through objects: seeded from the grammar's start rules
    ROOT_ATTRS = {"_parse_tree": "start"}

    def __init__(self, ctx):
        self.ctx = ctx
        self.model = ctx.model
        self.g = ctx.grammar
        self.sh = Shapes(self.g)
        self.params = {}          # qualname -> {param: value}
        self.returns = {}         # qualname -> value
        self.fields = {}          # attribute name -> value   (field-based, class-insensitive)
        self.field_inexact = set()
        self.findings = []
        self.checked = []         # (func, construct, kind) of every access decided safe on an exact value
        self.unresolved = []      # accesses on inexact values (counted only)
        self.changed = False
        self.collect = False
        self.inexact_args = set()
        self.untyped = []
        self.n_mut_sites = 0
        self.called = set()
        self.str_lists = ctx.module_str_lists()
        self._by_name = {}
        for q, f in self.model.functions.items():
            self._by_name.setdefault(q.split(".")[-1], []).append(q)

    # -- helpers ---------------------------------------------------------------------------------
    def tv_of_items(self, items, exact=True):
        shapes = set()
        for it in items:
            if it.startswith("TOKEN:"):
                shapes.add(("tok", it[6:]))
            else:
                n = self.sh.n_exp(it)
                if n == 0:
                    exact = False
                for i in range(n):
                    shapes.add(("tree", it, i, 0, INF))
        return TV(shapes, exact)

    def tv_of_label(self, label):
        return self.tv_of_items({label})

    def children_lv(self, tv):
        concs = set()
        for s in tv.trees():
            _, lab, idx, lo, hi = s
            for (h, t, n) in self.sh.unroll(lab, idx):
                if n is not None:
                    if lo <= n <= hi:
                        concs.add((h, t, n))
                elif hi > K:
                    concs.add((h, t, None))
        return LV(concs, None, tv.exact, owner=sorted({s[1] for s in tv.trees()}))

    def lv_elem(self, lv):
        """TV of an arbitrary element of the list."""
        if lv.concs is None:
            return lv.elem
        items = set()
        for (h, t, n) in lv.concs:
            for x in h:
                items |= x
            if n is None:
                for x in t:
                    items |= x
        return self.tv_of_items(items, lv.exact)

    # -- entry -----------------------------------------------------------------------------------
    def run(self, max_rounds=30):
        for attr, start in self.ROOT_ATTRS.items():
            self.fields[attr] = self.tv_of_items(self.g.labels(start) if not start.startswith("_") else set())
        roots = [q for q in self.model.functions if q.split(".")[-1] == "parse" and q.startswith("ParseCtx")]
        if not roots:
            raise AnalysisError("anchor lost: ParseCtx.parse (root of the tree-shape analysis)")
        self.called = set(roots)
        for rnd in range(max_rounds):
            self.changed = False
            for q in sorted(self.called):
                self.analyse(q)
            if not self.changed:
                break
        else:
            raise AnalysisError("tree-shape analysis did not reach a fixed point")
        self.collect = True
        self.findings, self.checked, self.unresolved = [], [], []
        self.n_mut_sites = 0
        for q in sorted(self.called):
            self.analyse(q)
        return self

    def set_param(self, q, name, val):
        if val is None:
            return
        if not val.exact and (val.concs is None if isinstance(val, LV) else True):
            # a value of inexact provenance is assumed to have one of the shapes the exactly typed call sites pass (counted in evidence)
            self.inexact_args.add((q, name, self.cur))
            if isinstance(val, TV) or val.elem is None:
                return
        cur = self.params.setdefault(q, {}).get(name)
        new = join(cur, val) if cur is not None else val
        if cur is None or not same(cur, new):
            self.params[q][name] = new
            self.changed = True

    def set_return(self, q, val):
        if val is None:
            return
        cur = self.returns.get(q)
        new = join(cur, val) if cur is not None else val
        if cur is None or not same(cur, new):
            self.returns[q] = new
            self.changed = True

    def set_field(self, name, val):
        if name in ("children", "data", "value", "type", "meta"):
            return
        if val is None:
            return
        cur = self.fields.get(name)
        new = join(cur, val) if cur is not None else val
        if cur is None or not same(cur, new):
            self.fields[name] = new
            self.changed = True

    # -- per function ----------------------------------------------------------------------------
    def analyse(self, q):
        fn = self.model.functions.get(q)
        if fn is None:
            return
        env = {}
        for name, v in self.params.get(q, {}).items():
            env[name] = v
        self.cur = q
        self.cur_cls = q.split(".")[0] if "." in q and q.split(".")[0] in self.model.classes else None
        self.cur_fn = fn
        out = self.block(fn.body, env)
        return out

    # environment: name / access path -> value; None state = unreachable
    def block(self, stmts, env):
        for st in stmts:
            if env is None:
                return None
            env = self.stmt(st, env)
        return env

    def merge(self, a, b):
        if a is None:
            return b
        if b is None:
            return a
        out = {}
        for k in set(a) | set(b):
            if k in a and k in b:
                v = join(a[k], b[k]) if not (a[k] is None or b[k] is None) else None
                if v is not None:
                    out[k] = v
            # a name bound on one side only: drop (unknown on the other)
        return out

    def kill(self, env, name):
        for k in list(env):
            if k == name or k.startswith(name + ".") or k.startswith(name + "["):
                del env[k]
        for k, v in list(env.items()):
            if isinstance(v, LV) and v.src is not None and (v.src[0] == name or v.src[0].startswith(name + ".") or v.src[0].startswith(name + "[")):
                env[k] = LV(v.concs, v.elem, v.exact, v.owner)

    def bind(self, target, val, env):
        if isinstance(target, ast.Name):
            self.kill(env, target.id)
            if val is not None:
                env[target.id] = val
        elif isinstance(target, (ast.Tuple, ast.List)):
            for i, t in enumerate(target.elts):
                sub = None
                if isinstance(val, tuple) and i < len(val):
                    sub = val[i]
                self.bind(t, sub, env)
        elif isinstance(target, ast.Attribute):
            base = self.ev(target.value, env) if not (isinstance(target.value, ast.Name) and target.value.id == "self") else None
            if isinstance(base, TV):
                self.mutation(target, f"stores into `.{target.attr}` of a parse tree node ({', '.join(sorted(base.labels()))[:120]})", base.exact)
            if isinstance(target.value, ast.Name) and target.value.id == "self":
                if val is not None and isinstance(val, (TV, LV)):
                    self.set_field(target.attr, val)
                elif target.attr in self.fields and target.attr not in self.ROOT_ATTRS:
                    # assigned something we cannot type: the field is no longer exactly known
                    cur = self.fields[target.attr]
                    if isinstance(cur, TV) and cur.exact:
                        self.fields[target.attr] = TV(cur.shapes, False)
                        self.changed = True
                    elif isinstance(cur, LV) and cur.exact:
                        self.fields[target.attr] = LV(cur.concs, cur.elem, False, cur.owner)
                        self.changed = True
            self.ev(target.value, env)
        elif isinstance(target, ast.Subscript):
            base = self.ev(target.value, env)
            if isinstance(base, LV) and base.concs is not None:
                self.mutation(target, "replaces a child of a parse tree node", base.exact)
            self.ev(target.slice, env)
        elif isinstance(target, ast.Starred):
            self.bind(target.value, None, env)

    def stmt(self, st, env):
        if isinstance(st, (ast.FunctionDef, ast.AsyncFunctionDef)):
            # nested function: analysed with the enclosing environment as its free variables, parameters unknown
            q = self.cur + "." + st.name
            if q in self.model.functions:
                saved = (self.cur, self.cur_fn)
                inner = dict(env)
                for a in st.args.args + st.args.kwonlyargs:
                    self.kill(inner, a.arg)
                for name, v in self.params.get(q, {}).items():
                    inner[name] = v
                self.cur = q
                self.block(st.body, inner)
                self.cur, self.cur_fn = saved
            return env
        if isinstance(st, ast.ClassDef):
            return env
        if isinstance(st, ast.Return):
            if st.value is not None:
                v = self.ev(st.value, env)
                if isinstance(v, (TV, LV)):
                    self.set_return(self.cur, v)
            return None
        if isinstance(st, ast.Raise):
            if st.exc is not None:
                self.ev(st.exc, env)
            return None
        if isinstance(st, (ast.Continue, ast.Break)):
            if isinstance(st, ast.Break) and getattr(self, "_loop_exits", None) is not None:
                self._loop_exits.append(env)
            return None
        if isinstance(st, ast.Assign):
            v = self.ev(st.value, env)
            env = dict(env)
            for t in st.targets:
                self.bind(t, v, env)
            return env
        if isinstance(st, ast.AnnAssign):
            v = self.ev(st.value, env) if st.value is not None else None
            env = dict(env)
            self.bind(st.target, v, env)
            return env
        if isinstance(st, ast.AugAssign):
            self.ev(st.value, env)
            env = dict(env)
            self.bind(st.target, None, env)
            return env
        if isinstance(st, ast.Expr):
            self.ev(st.value, env)
            return env
        if isinstance(st, ast.Assert):
            t, f = self.cond(st.test, env)
            if st.msg is not None and f is not None:
                self.ev(st.msg, f)
            return t
        if isinstance(st, ast.If):
            t, f = self.cond(st.test, env)
            a = self.block(st.body, t) if t is not None else None
            b = self.block(st.orelse, f) if f is not None else None
            return self.merge(a, b)
        if isinstance(st, (ast.For, ast.AsyncFor)):
            it = self.ev(st.iter, env)
            elem = self.iter_elem(it)
            cur = dict(env)
            saved_exits = getattr(self, "_loop_exits", None)
            self._loop_exits = []
            out = None
            for _ in range(4):
                body_env = dict(cur)
                self.bind(st.target, elem, body_env)
                out = self.block(st.body, body_env)
                nxt = self.merge(cur, out)
                if nxt is None or self._env_same(nxt, cur):
                    cur = nxt if nxt is not None else cur
                    break
                cur = nxt
            exits = self._loop_exits
            self._loop_exits = saved_exits
            after = self.block(st.orelse, dict(cur)) if st.orelse else cur
            for e in exits:
                after = self.merge(after, e)
            return after
        if isinstance(st, ast.While):
            cur = dict(env)
            saved_exits = getattr(self, "_loop_exits", None)
            self._loop_exits = []
            f_env = None
            for _ in range(4):
                t, f = self.cond(st.test, cur)
                f_env = f
                out = self.block(st.body, t) if t is not None else None
                nxt = self.merge(cur, out)
                if nxt is None or self._env_same(nxt, cur):
                    break
                cur = nxt
            exits = self._loop_exits
            self._loop_exits = saved_exits
            after = f_env
            for e in exits:
                after = self.merge(after, e)
            return after
        if isinstance(st, ast.Try):
            body = self.block(st.body, dict(env))
            outs = []
            if body is not None:
                outs.append(self.block(st.orelse, body) if st.orelse else body)
            for h in st.handlers:
                henv = dict(env)   # the handler may start anywhere in the body: keep only what held before (assignments in the body are unknown)
                for n in ast.walk(ast.Module(body=st.body, type_ignores=[])):
                    if isinstance(n, ast.Name) and isinstance(n.ctx, ast.Store):
                        self.kill(henv, n.id)
                if h.name:
                    self.kill(henv, h.name)
                outs.append(self.block(h.body, henv))
            res = None
            for o in outs:
                res = self.merge(res, o)
            if st.finalbody:
                res = self.block(st.finalbody, res if res is not None else dict(env))
            return res
        if isinstance(st, (ast.With, ast.AsyncWith)):
            env = dict(env)
            for it in st.items:
                v = self.ev(it.context_expr, env)
                if it.optional_vars is not None:
                    self.bind(it.optional_vars, None, env)
            return self.block(st.body, env)
        if isinstance(st, ast.Delete):
            env = dict(env)
            for t in st.targets:
                if isinstance(t, ast.Name):
                    self.kill(env, t.id)
                elif isinstance(t, ast.Subscript):
                    base = self.ev(t.value, env)
                    if isinstance(base, LV) and base.concs is not None:
                        self.mutation(t, "deletes a child of a parse tree node", base.exact)
            return env
        if isinstance(st, (ast.Pass, ast.Global, ast.Nonlocal, ast.Import, ast.ImportFrom)):
            return env
        if isinstance(st, ast.Match):
            self.ev(st.subject, env)
            res = None
            for c in st.cases:
                res = self.merge(res, self.block(c.body, dict(env)))
            return res
        return env

    def _env_same(self, a, b):
        if set(a) != set(b):
            return False
        return all(same(a[k], b[k]) for k in a)

    def iter_elem(self, it):
        if isinstance(it, LV):
            return self.lv_elem(it)
        if isinstance(it, tuple) and it and it[0] == "enumerate":
            return (None, self.iter_elem(it[1]))
        if isinstance(it, tuple) and it and it[0] == "zip":
            return tuple(self.iter_elem(x) for x in it[1])
        return None

    # -- conditions ------------------------------------------------------------------------------
    def path_of(self, node):
        """Access path string for a pure path expression (name, .children[const], .attr), else None."""
        if isinstance(node, ast.Name):
            return node.id
        if isinstance(node, ast.Attribute):
            p = self.path_of(node.value)
            return None if p is None else p + "." + node.attr
        if isinstance(node, ast.Subscript):
            p = self.path_of(node.value)
            if p is None:
                return None
            s = node.slice
            if isinstance(s, ast.Constant) and isinstance(s.value, int):
                return f"{p}[{s.value}]"
            if isinstance(s, ast.UnaryOp) and isinstance(s.op, ast.USub) and isinstance(s.operand, ast.Constant):
                return f"{p}[-{s.operand.value}]"
            return None
        return None

    def refine(self, env, path, val):
        env = dict(env)
        # a child known to be of some kind / label narrows the expansions its owner can be (lark expands optional parts into separate expansions)
        m = re.match(r"^(.*)\.children\[(-?\d+)\]$", path)
        if m and isinstance(val, TV):
            owner, i = m.group(1), int(m.group(2))
            ov = env.get(owner)
            if ov is None:
                try:
                    saved, self.collect = self.collect, False
                    ov = self.ev(ast.parse(owner, mode="eval").body, env)
                    self.collect = saved
                except SyntaxError:
                    ov = None
            if isinstance(ov, TV):
                want = val.labels()
                keep = set()
                for sh in ov.shapes:
                    if sh[0] != "tree":
                        continue
                    for (h, t, n) in self.sh.unroll(sh[1], sh[2]):
                        if n is not None:
                            if not (sh[3] <= n <= sh[4]) or not (-n <= i < n):
                                continue
                            items = h[i]
                        else:
                            if sh[4] <= K:
                                continue
                            items = h[i] if 0 <= i < len(h) else (t[i] if i < 0 and -i <= len(t) else None)
                        if items is None or (items & want):
                            keep.add(sh)
                            break
                if keep != set(ov.shapes) and (keep or not ov.exact):
                    env = self.refine(env, owner, TV(keep, ov.exact))
        # refining a path invalidates what was known about longer paths through it
        for k in list(env):
            if k != path and (k.startswith(path + ".") or k.startswith(path + "[")):
                del env[k]
        env[path] = val
        if isinstance(val, TV):
            for k, v in list(env.items()):
                if isinstance(v, LV) and v.src is not None and v.src[0] == path and v.concs is not None:
                    nv = self.children_lv(TV(val.trees(), val.exact))
                    nv.src = (path, None)
                    if v.src[1] is not None:
                        lo, up, step = v.src[1]
                        nv = self._slice(nv, lo, up, step)
                    env[k] = nv
        return env

    def cond(self, test, env):
        """-> (env if true, env if false); None = that outcome is impossible."""
        if isinstance(test, ast.BoolOp):
            if isinstance(test.op, ast.And):
                t_env, f_all = env, None
                for v in test.values:
                    if t_env is None:
                        break
                    t, f = self.cond(v, t_env)
                    f_all = self.merge(f_all, f)
                    t_env = t
                return t_env, f_all
            else:
                f_env, t_all = env, None
                for v in test.values:
                    if f_env is None:
                        break
                    t, f = self.cond(v, f_env)
                    t_all = self.merge(t_all, t)
                    f_env = f
                return t_all, f_env
        if isinstance(test, ast.UnaryOp) and isinstance(test.op, ast.Not):
            t, f = self.cond(test.operand, env)
            return f, t
        if isinstance(test, ast.Compare) and len(test.ops) == 1:
            return self.compare(test, env)
        if isinstance(test, ast.Call):
            fn = test.func
            if isinstance(fn, ast.Name) and fn.id == "isinstance" and len(test.args) == 2:
                p = self.path_of(test.args[0])
                v = self.ev(test.args[0], env)
                cls = ast.unparse(test.args[1])
                if isinstance(v, TV) and p is not None:
                    if cls in ("lark.Token", "Token"):
                        t = TV({s for s in v.shapes if s[0] == "tok"}, v.exact)
                        f = TV({s for s in v.shapes if s[0] == "tree"}, v.exact)
                        return (self.refine(env, p, t) if t.shapes or not v.exact else None,
                                self.refine(env, p, f) if f.shapes or not v.exact else None)
                    if cls in ("lark.Tree", "Tree"):
                        t = TV({s for s in v.shapes if s[0] == "tree"}, v.exact)
                        f = TV({s for s in v.shapes if s[0] == "tok"}, v.exact)
                        return (self.refine(env, p, t) if t.shapes or not v.exact else None,
                                self.refine(env, p, f) if f.shapes or not v.exact else None)
                    # any other class (BoundArgumentTree, str ...): a value built by the grammar is none of them, but an inexact one may be
                    t_env = dict(env)
                    self.kill(t_env, p) if "." not in p and "[" not in p else t_env.pop(p, None)
                    return t_env, env
                return env, env
            if isinstance(fn, ast.Attribute) and fn.attr in ("startswith", "endswith") and len(test.args) == 1 and \
                    isinstance(test.args[0], ast.Constant) and isinstance(test.args[0].value, str):
                sv = self.ev(fn.value, env)
                if isinstance(sv, StrOf) and sv.attr == "data" and sv.path is not None:
                    pre = test.args[0].value
                    f = (lambda x: x.startswith(pre)) if fn.attr == "startswith" else (lambda x: x.endswith(pre))
                    yes = {s for s in sv.tv.shapes if s[0] == "tree" and f(sv.string_of(s[1]))}
                    no = {s for s in sv.tv.shapes if not (s[0] == "tree" and f(sv.string_of(s[1])))}
                    return self.split_on_string(env, fn.value, sv, yes, no)
                return env, env
            v = self.ev(test, env)
            if isinstance(v, LenOf):
                ov = self.lookup(v.path, env)
                if isinstance(ov, TV):
                    return self.count_refine(env, v.path, ov, 1, INF), self.count_refine(env, v.path, ov, 0, 0)
            # a predicate called on a typed node inside a test (`if has_options(block):`): what it establishes is unknown here
            for a in list(test.args) + [k.value for k in test.keywords]:
                pa = self.path_of(a)
                cur = env.get(pa) if pa is not None else None
                if cur is None and pa is not None:
                    saved, self.collect = self.collect, False
                    cur = self.ev(a, env)
                    self.collect = saved
                if isinstance(cur, TV) and cur.exact:
                    env = self.refine(env, pa, TV(cur.shapes, False))
            return env, env
        # truthiness of X.children / of a list
        v = self.ev(test, env)
        if isinstance(v, LV) and v.concs is not None:
            p = self.path_of(test)
            # path is e.g. stmt.children: refine the owner's child count
            if p is not None and p.endswith(".children"):
                owner = p[:-len(".children")]
                ov = self.lookup(owner, env)
                if isinstance(ov, TV):
                    return self.count_refine(env, owner, ov, 1, INF), self.count_refine(env, owner, ov, 0, 0)
        return env, env

    def lookup(self, path, env):
        return env.get(path)

    def count_refine(self, env, owner, tv, lo, hi):
        shapes = set()
        for s in tv.shapes:
            if s[0] != "tree":
                shapes.add(s)
                continue
            nlo, nhi = max(s[3], lo), min(s[4], hi)
            if nlo > nhi:
                continue
            # is any child sequence of that expansion within the bounds?
            ok = False
            for (h, t, n) in self.sh.unroll(s[1], s[2]):
                if (n is not None and nlo <= n <= nhi) or (n is None and nhi > K):
                    ok = True
                    break
            if ok:
                shapes.add(("tree", s[1], s[2], nlo, nhi))
        if not shapes and tv.exact:
            return None
        return self.refine(env, owner, TV(shapes, tv.exact))

    def const_strs(self, node, env=None):
        if isinstance(node, ast.Name) and env is not None and isinstance(env.get(node.id), StrSet):
            return set(env[node.id].strs)
        if isinstance(node, ast.Constant) and isinstance(node.value, str):
            return {node.value}
        if isinstance(node, (ast.Tuple, ast.List, ast.Set)) and all(isinstance(e, ast.Constant) and isinstance(e.value, str) for e in node.elts):
            return {e.value for e in node.elts}
        if isinstance(node, ast.Name) and node.id in self.str_lists:
            return set(self.str_lists[node.id])
        return None

    def compare(self, test, env):
        left, op, right = test.left, test.ops[0], test.comparators[0]
        lv = self.ev(left, env)
        rv = self.ev(right, env)
        if isinstance(rv, (StrOf, LenOf)) and not isinstance(lv, (StrOf, LenOf)) and isinstance(op, (ast.Eq, ast.NotEq)):
            left, right, lv, rv = right, left, rv, lv
        res = self._compare(left, op, right, lv, rv, env)
        if res is None:
            # a test on the label / kind / child count of a typed node that this module cannot interpret (a computed tuple of labels, a
            # variable bound ...): whatever it establishes is unknown to the analysis, so the node is no longer exactly typed
            for v in (lv, rv):
                if isinstance(v, (StrOf, LenOf)) and v.path is not None:
                    cur = self.lookup(v.path, env)
                    if isinstance(cur, TV) and cur.exact:
                        env = self.refine(env, v.path, TV(cur.shapes, False))
            return env, env
        return res

    def _compare(self, left, op, right, lv, rv, env):
        # X.data == "lit" / in (...)
        if isinstance(lv, StrOf) and lv.path is not None and isinstance(lv.tv, TV):
            strs = self.const_strs(right, env)
            if lv.attr == "value":
                return env, env      # a test on a token's text says nothing about shapes
            if strs is not None and isinstance(op, (ast.Eq, ast.NotEq, ast.In, ast.NotIn)):
                if isinstance(op, (ast.Eq, ast.NotEq)) and len(strs) != 1:
                    return None
                tv = lv.tv
                if lv.attr == "data":
                    yes = {s for s in tv.shapes if s[0] == "tree" and lv.string_of(s[1]) in strs}
                    no = {s for s in tv.shapes if not (s[0] == "tree" and lv.string_of(s[1]) in strs)}
                elif lv.attr == "type":
                    yes = {s for s in tv.shapes if s[0] == "tok" and s[1] in strs}
                    no = {s for s in tv.shapes if not (s[0] == "tok" and s[1] in strs)}
                else:
                    return None
                t_env, f_env = self.split_on_string(env, left, lv, yes, no)
                if isinstance(op, (ast.NotEq, ast.NotIn)):
                    t_env, f_env = f_env, t_env
                return t_env, f_env
            return None
        # len(X.children) <op> n
        if isinstance(lv, LenOf) and isinstance(right, ast.Constant) and isinstance(right.value, int) and lv.path is not None:
            n = right.value
            owner = lv.path
            ov = self.lookup(owner, env)
            if isinstance(ov, TV):
                rng = {ast.Eq: ((n, n), None), ast.NotEq: (None, (n, n)), ast.Gt: ((n + 1, INF), (0, n)), ast.GtE: ((n, INF), (0, n - 1)),
                       ast.Lt: ((0, n - 1), (n, INF)), ast.LtE: ((0, n), (n + 1, INF))}.get(type(op))
                if rng is not None:
                    tr, fr = rng
                    t_env = self.count_refine(env, owner, ov, *tr) if tr else self._count_exclude(env, owner, ov, *fr)
                    f_env = self.count_refine(env, owner, ov, *fr) if fr else self._count_exclude(env, owner, ov, *tr)
                    return t_env, f_env
        if isinstance(lv, (StrOf, LenOf)) or isinstance(rv, (StrOf, LenOf)):
            return None
        return env, env

    def split_on_string(self, env, left, sv, yes, no):
        """Environments for "the string of the node at sv.path is one of / none of the selected": the node's shapes and, when the string
        sits in a variable, that variable are both narrowed."""
        tv = sv.tv
        outs = []
        for keep in (yes, no):
            if not keep and tv.exact:
                outs.append(None)
                continue
            cur = self.lookup(sv.path, env)
            e = env
            if isinstance(cur, TV):
                # the node itself may hold more shapes than the string was taken from (tokens): keep those out of the string's domain untouched
                node_keep = {s for s in cur.shapes if s in keep}
                e = self.refine(env, sv.path, TV(node_keep, cur.exact and tv.exact))
            else:
                e = self.refine(env, sv.path, TV(keep, tv.exact))
            if isinstance(left, ast.Name):
                e = dict(e)
                e[left.id] = sv.restricted(keep)
            outs.append(e)
        return outs[0], outs[1]

    def _count_exclude(self, env, owner, tv, lo, hi):
        """Refine to 'count not in [lo, hi]' (only exact for lo == hi at a range boundary; otherwise unchanged)."""
        shapes = set()
        for s in tv.shapes:
            if s[0] != "tree":
                shapes.add(s)
                continue
            lens = set()
            longer = False
            for (h, t, n) in self.sh.unroll(s[1], s[2]):
                if n is None:
                    longer = longer or s[4] > K
                elif s[3] <= n <= s[4]:
                    lens.add(n)
            rest = {n for n in lens if not (lo <= n <= hi)}
            if not rest and not longer:
                continue
            if lo == hi and rest and not longer:
                shapes.add(("tree", s[1], s[2], min(rest), max(rest))) if all(not (min(rest) < x < max(rest)) or x in rest or x == lo for x in range(int(min(rest)), int(max(rest)) + 1)) and not (min(rest) < lo < max(rest)) else shapes.add(s)
            elif lo == hi and longer and lo == min(lens | {K + 1}) and s[3] <= lo:
                shapes.add(("tree", s[1], s[2], lo + 1, s[4]))
            else:
                shapes.add(s)
        if not shapes and tv.exact:
            return None
        return self.refine(env, owner, TV(shapes, tv.exact))

    # -- expressions -----------------------------------------------------------------------------
    def mutation(self, node, what, exact):
        if self.collect:
            self.n_mut_sites += 1
            self.findings.append(Finding("MUT", self.cur, ast.unparse(node), f"{what}: the parse tree is shared by every expansion of a macro body and every use of an "
                                         "argument - a node changed while it is read is read changed the next time")) if exact else self.unresolved.append((self.cur, ast.unparse(node), "MUT"))

    def note(self, ok, kind, node, message, exact):
        if not self.collect:
            return
        construct = ast.unparse(node)
        if not exact:
            self.unresolved.append((self.cur, construct, kind))
        elif ok:
            self.checked.append((self.cur, construct, kind))
        else:
            self.findings.append(Finding(kind, self.cur, construct, message))

    def ev(self, node, env):
        m = getattr(self, "ev_" + type(node).__name__, None)
        if m is not None:
            return m(node, env)
        for ch in ast.iter_child_nodes(node):
            if isinstance(ch, ast.expr):
                self.ev(ch, env)
        return None

    def ev_Name(self, node, env):
        return env.get(node.id)

    def ev_Constant(self, node, env):
        return None

    def _ev_coll(self, node, env):
        if node.elts and all(isinstance(e, ast.Constant) and isinstance(e.value, str) for e in node.elts):
            return StrSet(e.value for e in node.elts)
        for e in node.elts:
            self.ev(e, env)
        return None

    ev_List = ev_Tuple = ev_Set = _ev_coll

    def ev_Attribute(self, node, env):
        p = self.path_of(node)
        base = self.ev(node.value, env)
        if p is not None and p in env:
            return env[p]
        a = node.attr
        if isinstance(base, TV):
            toks, trees = base.toks(), base.trees()
            if a in TOKEN_ATTRS:
                self.note(not trees, "ATTR", node, f"`.{a}` is read from a value that can be a Tree ({', '.join(sorted({s[1] for s in trees}))}): "
                          f"lark trees have no `.{a}` (AttributeError)", base.exact)
                if a in ("value", "type"):
                    return StrOf(TV({s for s in base.shapes if s[0] == "tok"}, base.exact), a, self.path_of(node.value))
                return None
            if a in TREE_ATTRS:
                self.note(not toks, "ATTR", node, f"`.{a}` is read from a value that can be a Token ({', '.join(sorted(toks))}): "
                          f"lark tokens have no `.{a}` (AttributeError)", base.exact)
                if a == "children":
                    lv = self.children_lv(TV(trees, base.exact))
                    lv.src = (self.path_of(node.value), None) if self.path_of(node.value) else None
                    return lv
                if a == "data":
                    return StrOf(TV(trees, base.exact), "data", self.path_of(node.value))
                return ("method", a, base)
            return None
        if isinstance(base, LV):
            return ("lmethod", a, base)
        if base is None and self.collect and a in ("children", "data") :
            self.untyped.append((self.cur, ast.unparse(node)))
        if a in self.fields and not (isinstance(node.value, ast.Name) and node.value.id in ("lark", "ast", "os", "sys", "re")):
            return self.fields[a]
        return None

    def ev_Subscript(self, node, env):
        p = self.path_of(node)
        base = self.ev(node.value, env)
        sl = node.slice
        if p is not None and p in env:
            if not isinstance(sl, ast.Slice):
                self.ev(sl, env)
            # still decide the range obligation for the refined access
            if isinstance(base, LV):
                self.index(node, base, sl, env)
            return env[p]
        if isinstance(base, LV):
            return self.index(node, base, sl, env)
        if isinstance(base, StrOf) and isinstance(sl, ast.Slice) and sl.upper is None and sl.step is None and sl.lower is not None and base.attr == "data":
            n = self._const_int(sl.lower)
            if n is None and isinstance(sl.lower, ast.Call) and isinstance(sl.lower.func, ast.Name) and sl.lower.func.id == "len" and \
                    len(sl.lower.args) == 1 and isinstance(sl.lower.args[0], ast.Constant) and isinstance(sl.lower.args[0].value, str):
                n = len(sl.lower.args[0].value)
            if n is not None and n >= 0:
                return StrOf(base.tv, base.attr, base.path, {s[1]: base.string_of(s[1])[n:] for s in base.tv.shapes if s[0] == "tree"})
            return None
        if isinstance(node.value, ast.Dict):
            key = self.ev(sl, env)
            if isinstance(key, StrOf):
                self.dict_keys(node, node.value, key)
            return None
        if not isinstance(sl, ast.Slice):
            self.ev(sl, env)
        else:
            for x in (sl.lower, sl.upper, sl.step):
                if x is not None:
                    self.ev(x, env)
        return None

    def dict_keys(self, node, d, key):
        keys = set()
        for k in d.keys:
            if not (isinstance(k, ast.Constant) and isinstance(k.value, str)):
                return
            keys.add(k.value)
        tv = key.tv
        if key.attr == "data":
            want = {key.string_of(s[1]) for s in tv.trees()}
            missing = want - keys
            self.note(not missing, "KEY", node, f"dict literal subscripted by `.data` has no entry for label(s) {sorted(missing)} the grammar can "
                      f"produce here (KeyError)", tv.exact)
        elif key.attr == "value":
            missing, exact = set(), tv.exact
            for t in tv.toks():
                try:
                    lang = self.g.terminal_language(t)
                except AnalysisError:
                    lang = None
                if lang is None:
                    exact = False
                    continue
                missing |= set(lang) - keys
            self.note(not missing, "KEY", node, f"dict literal subscripted by a token's text has no entry for {sorted(missing)}, which the "
                      f"terminal(s) {sorted(tv.toks())} can spell (KeyError)", exact)

    @staticmethod
    def _const_int(n):
        if isinstance(n, ast.Constant) and isinstance(n.value, int) and not isinstance(n.value, bool):
            return n.value
        if isinstance(n, ast.UnaryOp) and isinstance(n.op, ast.USub) and isinstance(n.operand, ast.Constant) and isinstance(n.operand.value, int):
            return -n.operand.value
        return None

    def index(self, node, lv, sl, env):
        if lv.concs is None:
            if isinstance(sl, ast.Slice):
                return LV(None, lv.elem, False)
            self.ev(sl, env)
            e = lv.elem
            return TV(e.shapes, False) if isinstance(e, TV) else None
        if isinstance(sl, ast.Slice):
            lo = self._const_int(sl.lower) if sl.lower is not None else 0
            up = self._const_int(sl.upper) if sl.upper is not None else None
            step = self._const_int(sl.step) if sl.step is not None else 1
            if lo is None or (sl.upper is not None and up is None) or step is None or step < 1 or lo < 0 or (up is not None and up >= 0 and sl.upper is not None and False):
                return LV(None, self.lv_elem(lv), False)
            return self._slice(lv, lo, up, step)
        i = self._const_int(sl)
        return self._index_int(node, lv, sl, i, env)

    def _slice(self, lv, lo, up, step):
        if True:
            concs = set()
            exact = lv.exact
            for (h, t, n) in lv.concs:
                if n is not None:
                    seq = h[slice(lo, up, step)]
                    concs.add((seq, seq, len(seq)))
                else:
                    if up is not None and up >= 0:
                        seq = h[slice(lo, up, step)]
                        if up <= K:
                            concs.add((seq, seq, len(seq)))
                        else:
                            exact = False
                        continue
                    nh = h[lo::step]
                    nt = t if step == 1 else ()
                    if up is not None:
                        nt = nt[:up] if nt else ()
                    if step != 1:
                        # parity of the tail is unknown: keep every item the tail can hold at any position
                        pass
                    concs.add((nh, nt, None))
            out = LV(concs, None, exact, lv.owner)
            if lv.src is not None and lv.src[1] is None:
                out.src = (lv.src[0], (lo, up, step))
            if step != 1 and any(n is None for (_, _, n) in lv.concs):
                # elements beyond the unrolled head: period of a repetition is at most 3, the head (K) covers several periods
                pass
            return out

    def _index_int(self, node, lv, sl, i, env):
        if i is None:
            self.ev(sl, env)
            e = self.lv_elem(lv)
            return TV(e.shapes, False) if isinstance(e, TV) else None
        items, short, exact = set(), [], lv.exact
        for (h, t, n) in lv.concs:
            if n is not None:
                if -n <= i < n:
                    items |= h[i]
                else:
                    short.append(n)
            else:
                if i >= 0:
                    if i < len(h):
                        items |= h[i]
                    else:
                        exact = False
                else:
                    if t and -i <= len(t):
                        items |= t[i]
                    else:
                        exact = False
        owner = "/".join(lv.owner or [])
        self.note(not short, "IDX", node, f"child [{i}] does not exist in every tree that reaches this access: `{owner}` can have "
                  f"{sorted(set(short))} child(ren) here (IndexError)", exact)
        return self.tv_of_items(items, exact)

    def ev_Call(self, node, env):
        fn = node.func
        args = [self.ev(a.value if isinstance(a, ast.Starred) else a, env) for a in node.args]
        kws = {k.arg: self.ev(k.value, env) for k in node.keywords}
        if not (isinstance(fn, ast.Name) and fn.id in ("len", "str", "repr", "print", "isinstance")) and not (
                isinstance(fn, ast.Attribute) and fn.attr in ("format", "startswith", "endswith", "append", "add", "upper", "lower")):
            for v in list(args) + list(kws.values()):
                self.degrade(env, v)
        # builtins over lists
        if isinstance(fn, ast.Name):
            name = fn.id
            if name == "len" and len(node.args) == 1 and isinstance(args[0], LV):
                p = self.path_of(node.args[0])
                if p is not None and p.endswith(".children"):
                    return LenOf(p[:-len(".children")], args[0])
                return None
            if name in ("list", "tuple", "iter", "reversed", "sorted") and args and isinstance(args[0], LV):
                a = args[0]
                if name in ("reversed", "sorted"):
                    return LV(None, self.lv_elem(a), a.exact)
                return a
            if name == "enumerate" and args:
                return ("enumerate", args[0])
            if name == "zip":
                return ("zip", args)
            if name == "next" and args and isinstance(args[0], LV):
                return self.lv_elem(args[0])
            if name == "isinstance":
                return None
            q = name if name in self.model.functions else None
            if q is None and name in self.model.classes:
                q = self.resolve_method(name, "__init__")
                return self.call(q, node, args, kws, ctor=True)
            if q is not None:
                return self.call(q, node, args, kws)
            return None
        if isinstance(fn, ast.Attribute):
            recv = self.ev(fn.value, env)
            meth = fn.attr
            if isinstance(recv, TV):
                if meth in TOKEN_ATTRS or meth in TREE_ATTRS:
                    pass
                trees = recv.trees()
                toks = recv.toks()
                if meth in ("find_data", "iter_subtrees", "find_pred"):
                    self.note(not toks, "ATTR", node.func, f"`.{meth}` is called on a value that can be a Token ({', '.join(sorted(toks))})", recv.exact)
                    if meth == "find_data" and node.args and isinstance(node.args[0], ast.Constant) and isinstance(node.args[0].value, str):
                        lab = node.args[0].value
                        if self.sh.n_exp(lab) == 0:
                            self.note(False, "LABEL", node, f"find_data({lab!r}): no expansion of the grammar constructs a tree with that label "
                                      "(the search can never find anything)", True)
                            return LV(None, None, False)
                        self.note(True, "LABEL", node, "", True)
                        return LV(None, self.tv_of_label(lab), True)
                    return LV(None, None, False)
                return None
            if isinstance(recv, LV) and meth in ("copy",):
                return recv
            if isinstance(recv, LV) and recv.concs is not None and meth in ("append", "extend", "insert", "pop", "remove", "clear", "sort", "reverse"):
                self.mutation(node, f"`.{meth}()` on the children of a parse tree node", recv.exact)
                return None
            # self.method(...) / obj.method(...)
            if isinstance(fn.value, ast.Name) and fn.value.id == "self" and self.cur_cls:
                qs = self.resolve_self_method(self.cur_cls, meth)
                res = None
                for q in qs:
                    res = join(res, self.call(q, node, args, kws)) if res is not None else self.call(q, node, args, kws)
                return res
            if isinstance(fn.value, ast.Call) and isinstance(fn.value.func, ast.Name) and fn.value.func.id == "super" and self.cur_cls:
                mro = self.model.mro(self.cur_cls)
                for c in mro[1:]:
                    if c in self.model.classes and meth in self.model.classes[c].methods:
                        return self.call(f"{c}.{meth}", node, args, kws)
                return None
            if any(isinstance(a, (TV, LV)) for a in list(args) + list(kws.values())):
                # a tree handed to a method of an object of unknown class: every method of that name (over-approximation of callees)
                cands = [q for q in self._by_name.get(meth, []) if q.count(".") == 1]
                if 0 < len(cands) <= 6:
                    res = None
                    for q in cands:
                        r = self.call(q, node, args, kws)
                        res = r if res is None else join(res, r)
                    return res
            return None
        return None

    def resolve_method(self, cls, meth):
        for c in self.model.mro(cls):
            if c in self.model.classes and meth in self.model.classes[c].methods:
                return f"{c}.{meth}"
        return None

    def resolve_self_method(self, cls, meth):
        out = []
        q = self.resolve_method(cls, meth)
        if q:
            out.append(q)
        for sub in self.model.subclasses(cls, include_self=False):
            if meth in self.model.classes[sub].methods:
                out.append(f"{sub}.{meth}")
        return out

    def call(self, q, node, args, kws, ctor=False):
        if q is None or q not in self.model.functions:
            return None
        f = self.model.functions[q]
        names = [a.arg for a in f.args.posonlyargs + f.args.args]
        is_method = "." in q and q.split(".")[0] in self.model.classes and not any(
            "staticmethod" in ast.unparse(d) for d in f.decorator_list)
        if is_method and names:
            names = names[1:]
        has_star = any(isinstance(a, ast.Starred) for a in node.args)
        if q not in self.called:
            self.called.add(q)
            self.changed = True
        if not has_star:
            for i, v in enumerate(args):
                if i < len(names) and isinstance(v, (TV, LV)):
                    self.set_param(q, names[i], v)
        for k, v in kws.items():
            if k is not None and isinstance(v, (TV, LV)) and (k in names or k in [a.arg for a in f.args.kwonlyargs]):
                self.set_param(q, k, v)
        if ctor:
            return None
        return self.returns.get(q)

    def ev_IfExp(self, node, env):
        t, f = self.cond(node.test, env)
        a = self.ev(node.body, t) if t is not None else None
        b = self.ev(node.orelse, f) if f is not None else None
        if t is None:
            return b
        if f is None:
            return a
        return join(a, b) if (a is not None and b is not None) else None

    def ev_BoolOp(self, node, env):
        for v in node.values:
            self.degrade(env, self.ev(v, env))
        return None

    def degrade(self, env, v):
        """The outcome of a test on this node's label / kind / child count leaves the analysis' sight (stored in a variable, handed to a
        call): whatever is later concluded from it is unknown here, so the node stops being exactly typed (in place: later statements see it)."""
        if isinstance(v, (StrOf, LenOf)) and v.path is not None and not (isinstance(v, StrOf) and v.attr == "value"):
            cur = env.get(v.path)
            if isinstance(cur, TV) and cur.exact:
                env[v.path] = TV(cur.shapes, False)
                for k, x in list(env.items()):
                    if isinstance(x, LV) and x.src is not None and x.src[0] == v.path:
                        env[k] = LV(x.concs, x.elem, False, x.owner)

    def ev_Compare(self, node, env):
        vals = [self.ev(node.left, env)] + [self.ev(c, env) for c in node.comparators]
        for v in vals:
            self.degrade(env, v)
        return None

    def _comp(self, node, env, elts):
        env = dict(env)
        for gen in node.generators:
            it = self.ev(gen.iter, env)
            self.bind(gen.target, self.iter_elem(it), env)
            for c in gen.ifs:
                t, f = self.cond(c, env)
                env = t if t is not None else env
        vals = [self.ev(e, env) for e in elts]
        return vals

    def ev_ListComp(self, node, env):
        v = self._comp(node, env, [node.elt])[0]
        return LV(None, v, v.exact) if isinstance(v, TV) else None

    ev_GeneratorExp = ev_ListComp
    ev_SetComp = ev_ListComp

    def ev_DictComp(self, node, env):
        self._comp(node, env, [node.key, node.value])
        return None

    def ev_Lambda(self, node, env):
        inner = dict(env)
        for a in node.args.args:
            self.kill(inner, a.arg)
        self.ev(node.body, inner)
        return None

    def ev_Starred(self, node, env):
        return self.ev(node.value, env)

    def ev_NamedExpr(self, node, env):
        v = self.ev(node.value, env)
        return v


def analyse(ctx):
    cached = getattr(ctx, "_treeshape", None)
    if cached is None:
        cached = ctx._treeshape = TreeShapeAnalysis(ctx).run()
    return cached
