"""Recogniser for DFTransition builder chains:  DFTransition(vals, fallthrough=..).to(X).attach(..).fallthrough(..).handles_else(..)

Gives, for each chain in a function, the resolved pieces so that rules compare constructs, not text."""
import ast
from .srcmodel import walk_no_nested

BUILDER_METHODS = {"to", "attach", "fallthrough", "handles_else"}


class Chain:
    def __init__(self, node):
        self.node = node          # outermost call
        self.root = None          # innermost receiver expression
        self.root_is_ctor = False
        self.on_values = None     # source of ctor's first arg
        self.to = None            # source of .to() arg
        self.fallthrough = None   # None = not set ; 'True'/'False'/expr source
        self.handles_else = None
        self.attach = []          # list of (args sources, prepend flag source)
        self.lineno = node.lineno

    def truthy(self, which):
        v = getattr(self, which)
        return v is not None and v != "False"

    def __repr__(self):
        return f"<Chain root={self.root} on={self.on_values} to={self.to} fall={self.fallthrough} else={self.handles_else} attach={self.attach}>"


def parse_chain(call):
    """Parse an ast.Call that is the outermost call of a builder chain; None if it is not one."""
    ch = Chain(call)
    n = call
    seen_method = False
    while isinstance(n, ast.Call) and isinstance(n.func, ast.Attribute) and n.func.attr in BUILDER_METHODS:
        m = n.func.attr
        seen_method = True
        if m == "to" and ch.to is None:
            ch.to = ast.unparse(n.args[0]) if n.args else None
        elif m == "fallthrough" and ch.fallthrough is None:
            ch.fallthrough = ast.unparse(n.args[0]) if n.args else "True"
        elif m == "handles_else" and ch.handles_else is None:
            ch.handles_else = ast.unparse(n.args[0]) if n.args else "True"
        elif m == "attach":
            prepend = next((ast.unparse(k.value) for k in n.keywords if k.arg == "prepend"), "False")
            ch.attach.append(([ast.unparse(a) for a in n.args], prepend))
        n = n.func.value
    if isinstance(n, ast.Call) and isinstance(n.func, ast.Name) and n.func.id in ("DFTransition", "DFConditionalTransition"):
        ch.root_is_ctor = True
        ch.root = ast.unparse(n)
        if n.args:
            ch.on_values = ast.unparse(n.args[0])
        for k in n.keywords:
            if k.arg == "on_values":
                ch.on_values = ast.unparse(k.value)
            if k.arg == "fallthrough" and ch.fallthrough is None:
                ch.fallthrough = ast.unparse(k.value)
            if k.arg == "error_handling" and ch.handles_else is None:
                ch.handles_else = ast.unparse(k.value)
        if len(n.args) >= 2 and ch.fallthrough is None:
            ch.fallthrough = ast.unparse(n.args[1])
        return ch
    if not seen_method:
        return None
    ch.root = ast.unparse(n)
    return ch


def chains_in(fn, nested=True):
    """All maximal builder chains in a function body."""
    it = ast.walk(fn) if nested else walk_no_nested(fn)
    calls = [n for n in it if isinstance(n, ast.Call)]
    inner = set()
    for c in calls:
        if isinstance(c.func, ast.Attribute) and c.func.attr in BUILDER_METHODS and isinstance(c.func.value, ast.Call):
            inner.add(id(c.func.value))
    out = []
    for c in calls:
        if id(c) in inner:
            continue
        is_builder = isinstance(c.func, ast.Attribute) and c.func.attr in BUILDER_METHODS
        is_ctor = isinstance(c.func, ast.Name) and c.func.id in ("DFTransition", "DFConditionalTransition")
        if not (is_builder or is_ctor):
            continue
        ch = parse_chain(c)
        if ch is not None:
            out.append(ch)
    return out
