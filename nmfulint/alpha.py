"""Alpha-normalisation of local names against the reference tree.

Rules are written with the local names the anchored functions use today. Renaming a local is a behaviour-preserving edit, so before any
rule looks at a function, its locals are renamed back - consistently, capture-free, scope by scope - to the names the reference tree binds
at the same positions (`localnames.json`: per function scope, nested functions separately, the distinct names bound in it in source order).
The alignment is a sequence diff of the two name lists: names equal to the reference stay, a run of k replaced names maps positionally,
inserted / deleted names are left alone. A mapping entry whose target is otherwise used inside the function is dropped (capture).
Analysing an alpha-equivalent function is sound: consistent renaming of locals never changes behaviour.
"""
import ast, difflib, json, os

REF_FILE = os.path.join(os.path.dirname(os.path.abspath(__file__)), "localnames.json")
SCOPES = (ast.FunctionDef, ast.AsyncFunctionDef, ast.Lambda)


def _params(fn):
    a = fn.args
    out = {x.arg for x in a.args + a.kwonlyargs + a.posonlyargs}
    if a.vararg:
        out.add(a.vararg.arg)
    if a.kwarg:
        out.add(a.kwarg.arg)
    return out


def own_nodes(fn):
    """(nodes of fn's own scope, directly nested scopes). Nested function / lambda bodies are not part of the own scope."""
    own, nested = [], []
    todo = list(ast.iter_child_nodes(fn))
    while todo:
        n = todo.pop()
        if isinstance(n, SCOPES):
            nested.append(n)
            continue
        own.append(n)
        todo.extend(ast.iter_child_nodes(n))
    return own, nested


def bound_names(fn, module_names):
    """Distinct identifiers bound in fn's own scope, in source order; parameters, global/nonlocal names and module-level names excluded."""
    own, _ = own_nodes(fn)
    skip = set(_params(fn))      # (a name assigned in a function is local to it even when a module-level name is spelled the same)
    found = []
    for n in own:
        if isinstance(n, (ast.Global, ast.Nonlocal)):
            skip |= set(n.names)
        elif isinstance(n, ast.Name) and isinstance(n.ctx, (ast.Store, ast.Del)):
            found.append((n.lineno, n.col_offset, n.id))
        elif isinstance(n, ast.ExceptHandler) and n.name:
            found.append((n.lineno, n.col_offset, n.name))
    out, seen = [], set()
    for _, _, name in sorted(found):
        if name in skip or name in seen:
            continue
        seen.add(name)
        out.append(name)
    return out


def outer_functions(tree):
    for st in tree.body:
        if isinstance(st, (ast.FunctionDef, ast.AsyncFunctionDef)):
            yield st.name, st
        elif isinstance(st, ast.ClassDef):
            for m in st.body:
                if isinstance(m, (ast.FunctionDef, ast.AsyncFunctionDef)):
                    yield f"{st.name}.{m.name}", m


def scopes(tree):
    """(qualname, function node) for every named function scope, nested ones as parent.child."""
    def rec(q, fn):
        yield q, fn
        _, nested = own_nodes(fn)
        for g in sorted((g for g in nested if not isinstance(g, ast.Lambda)), key=lambda g: g.lineno):
            yield from rec(q + "." + g.name, g)
    for q, fn in outer_functions(tree):
        yield from rec(q, fn)


def module_level_names(tree):
    g = set()
    for st in tree.body:
        if isinstance(st, (ast.FunctionDef, ast.AsyncFunctionDef, ast.ClassDef)):
            g.add(st.name)
        elif isinstance(st, ast.Assign):
            for t in st.targets:
                for n in ast.walk(t):
                    if isinstance(n, ast.Name):
                        g.add(n.id)
        elif isinstance(st, (ast.Import, ast.ImportFrom, ast.Try, ast.If)):
            for x in ast.walk(st):
                if isinstance(x, (ast.Import, ast.ImportFrom)):
                    for a in x.names:
                        g.add((a.asname or a.name).split(".")[0])
    return g


def reference_table(tree):
    g = module_level_names(tree)
    return {q: bound_names(fn, g) for q, fn in scopes(tree)}


def load_reference():
    try:
        with open(REF_FILE) as f:
            return json.load(f)
    except FileNotFoundError:
        return {}


def _rename_in_scope(fn, mapping, module_names, top=True):
    """Apply `mapping` to the names of fn's own scope and to nested scopes in which the name is free."""
    own, nested = own_nodes(fn)
    for n in own:
        if isinstance(n, ast.Name) and n.id in mapping:
            n.id = mapping[n.id]
        elif isinstance(n, ast.ExceptHandler) and n.name in mapping:
            n.name = mapping[n.name]
    for g in nested:
        rebound = _params(g) | (set(bound_names(g, ())) if not isinstance(g, ast.Lambda) else set())
        inner = {a: b for a, b in mapping.items() if a not in rebound}
        if inner:
            _rename_in_scope(g, inner, module_names, top=False)


def _occurs_free(fn, a):
    own, nested = own_nodes(fn)
    if any(isinstance(n, ast.Name) and n.id == a for n in own):
        return True
    for g in nested:
        rebound = _params(g) | (set(bound_names(g, ())) if not isinstance(g, ast.Lambda) else set())
        if a not in rebound and _occurs_free(g, a):
            return True
    return False


def _captures(fn, a, b, top=False):
    """Would renaming a -> b in fn's scope (and the nested scopes where a is free) make some occurrence refer to a different binding?"""
    own, nested = own_nodes(fn)
    for n in own:
        if (isinstance(n, ast.Name) and n.id == b) or (isinstance(n, ast.ExceptHandler) and n.name == b):
            return True
    if b in _params(fn):
        return True
    for g in nested:
        rebound = _params(g) | (set(bound_names(g, ())) if not isinstance(g, ast.Lambda) else set())
        if a in rebound or not _occurs_free(g, a):
            # a is not renamed in there. A free use of b in there would start to refer to the renamed local: also a capture
            if b not in rebound and _occurs_free(g, b):
                return True
            continue
        if b in rebound or _captures(g, a, b):
            return True
    return False


def normalise(tree, ref=None):
    """Rename locals of every function scope of `tree` to the reference names (in place). Returns {qualname: mapping applied}."""
    ref = load_reference() if ref is None else ref
    g = module_level_names(tree)
    applied = {}
    for q, fn in list(scopes(tree)):
        want = ref.get(q)
        if not want:
            continue
        cur = bound_names(fn, g)
        if cur == want:
            continue
        mapping = {}
        for op, i1, i2, j1, j2 in difflib.SequenceMatcher(None, want, cur, autojunk=False).get_opcodes():
            if op == "replace" and (i2 - i1) == (j2 - j1):
                for k in range(i2 - i1):
                    # a rename replaces a reference name that is now missing by a name the reference does not know: a name that is itself a reference
                    # name was not renamed (the function gained or lost locals around it - an older or a repaired tree - and the diff merely paired them up)
                    if cur[j1 + k] not in want and want[i1 + k] not in cur:
                        mapping[cur[j1 + k]] = want[i1 + k]
        if not mapping:
            continue
        mapping = {a: b for a, b in mapping.items() if b in mapping or not _captures(fn, a, b, top=True)}      # capture-free (simultaneous substitution)
        if not mapping:
            continue
        _rename_in_scope(fn, mapping, g)
        applied[q] = mapping
    return applied
