"""E1 source model: class table, MRO, function index, small AST utilities.

Everything takes *source text*; anchors are qualified names, never line numbers.
"""
import ast
from .core import AnalysisError


class ClassInfo:
    def __init__(self, node):
        self.node = node
        self.name = node.name
        self.bases = []
        for b in node.bases:
            if isinstance(b, ast.Name):
                self.bases.append(b.id)
            elif isinstance(b, ast.Attribute):
                self.bases.append(ast.unparse(b))
        self.methods = {}
        self.attrs = {}     # class-level assignments name -> value node
        self.abstract = set()
        for st in node.body:
            if isinstance(st, (ast.FunctionDef, ast.AsyncFunctionDef)):
                self.methods[st.name] = st
                for d in st.decorator_list:
                    if "abstractmethod" in ast.unparse(d):
                        self.abstract.add(st.name)
            elif isinstance(st, ast.Assign):
                for t in st.targets:
                    if isinstance(t, ast.Name):
                        self.attrs[t.id] = st.value
            elif isinstance(st, ast.AnnAssign) and isinstance(st.target, ast.Name) and st.value is not None:
                self.attrs[st.target.id] = st.value


_NORMALISED = {}      # hash(source text) -> (normalised text, alpha mapping, canon report): the 20 checks of one tree share the work


_CODE_DIGEST = []


def _cache_file(text):
    """Optional on-disk cache of normalised sources (the 20 checks of one tree, and the self-test's variants, share the work). Keyed by the source text and by
    everything the normalisation depends on; a missing or unreadable cache only costs time."""
    import hashlib, os
    here = os.path.dirname(os.path.abspath(__file__))
    h = hashlib.sha1()
    h.update(text.encode("utf-8", "replace"))
    if not _CODE_DIGEST:
        # (once per process, when the first source is normalised: a process keeps using the code it loaded, whatever happens to the files afterwards)
        d = hashlib.sha1()
        for f in ("canon.py", "alpha.py", "reference_nmfu.py", "localnames.json"):
            try:
                with open(os.path.join(here, f), "rb") as fh:
                    d.update(hashlib.sha1(fh.read()).digest())
            except OSError:
                pass
        _CODE_DIGEST.append(d.digest())
    h.update(_CODE_DIGEST[0])
    d = os.environ.get("NMFULINT_CACHE", os.path.join(os.path.dirname(here), ".cache", "norm"))
    return os.path.join(d, h.hexdigest() + ".json")


def _disk_cache_get(text):
    import json, os
    try:
        with open(_cache_file(text)) as f:
            d = json.load(f)
        canon_applied = {k: tuple(v) for k, v in d["canon"].items()}
        return d["norm"], d["alpha"], canon_applied
    except Exception:
        return None


def _disk_cache_put(text, entry):
    import json, os, tempfile
    try:
        path = _cache_file(text)
        os.makedirs(os.path.dirname(path), exist_ok=True)
        fd, tmp = tempfile.mkstemp(dir=os.path.dirname(path))
        with os.fdopen(fd, "w") as f:
            json.dump({"norm": entry[0], "alpha": entry[1], "canon": {k: list(v) for k, v in entry[2].items()}}, f)
        os.replace(tmp, path)
    except Exception:
        pass


class SourceModel:
    def __init__(self, text, filename="nmfu.py"):
        self.text = text
        self.filename = filename
        key = hash(text)
        disk = _disk_cache_get(text) if key not in _NORMALISED else None
        if disk is not None:
            _NORMALISED[key] = disk
        if key in _NORMALISED:
            norm, self.alpha_applied, self.canon_applied = _NORMALISED[key]
            self.tree = ast.parse(norm, filename)
        else:
            try:
                self.tree = ast.parse(text, filename)
            except SyntaxError as e:
                raise AnalysisError(f"source does not parse: {e}")
            from . import alpha
            self.alpha_applied = alpha.normalise(self.tree)     # locals renamed back to the reference names (behaviour-preserving; see alpha.py)
            from . import canon
            self.canon_applied = canon.restore(self.tree)       # behaviour-preserving rewrites restored to the reference's spelling (see canon.py)
            if self.canon_applied or self.alpha_applied:
                norm = ast.unparse(ast.fix_missing_locations(self.tree))
                self.tree = ast.parse(norm, filename)           # consistent positions again
                if len(_NORMALISED) > 4:
                    _NORMALISED.clear()
                _NORMALISED[key] = (norm, self.alpha_applied, self.canon_applied)
                _disk_cache_put(text, _NORMALISED[key])
        self.classes = {}
        self.functions = {}       # qualified name -> FunctionDef
        self.module_assigns = {}  # name -> value node (last assignment at module level)
        self.parents = {}
        for node in ast.walk(self.tree):
            for ch in ast.iter_child_nodes(node):
                self.parents[ch] = node
        for st in self.tree.body:
            if isinstance(st, ast.ClassDef):
                self.classes[st.name] = ClassInfo(st)
            if isinstance(st, ast.Assign):
                for t in st.targets:
                    if isinstance(t, ast.Name):
                        self.module_assigns[t.id] = st.value
        self._index_functions(self.tree, "")
        self._mro_cache = {}

    def _index_functions(self, node, prefix):
        for st in ast.iter_child_nodes(node):
            if isinstance(st, (ast.FunctionDef, ast.AsyncFunctionDef)):
                q = prefix + st.name
                self.functions[q] = st
                self._index_functions(st, q + ".")
            elif isinstance(st, ast.ClassDef):
                self._index_functions(st, prefix + st.name + ".")
            elif isinstance(st, (ast.If, ast.For, ast.While, ast.With, ast.Try)):
                self._index_functions(st, prefix)

    # -- anchors -------------------------------------------------------------------------
    def func(self, qualname):
        f = self.functions.get(qualname)
        if f is None:
            raise AnalysisError(f"anchor lost: function {qualname} not found in {self.filename}")
        return f

    def has_func(self, qualname):
        return qualname in self.functions

    # -- construct matching with local names as metavariables (pat.py) -----------------------
    def has(self, qualname, src, root=None):
        """Does function `qualname` contain the construct `src` (written with today's names; locals match as metavariables)?"""
        from .pat import ahas
        fn = self.func(qualname)
        try:
            return ahas(self, fn, src, root)
        except SyntaxError:
            # not a complete statement / expression (e.g. an `if` header): fall back to normalised text containment
            self.text_fallbacks = getattr(self, "text_fallbacks", 0) + 1
            return src in ast.unparse(root if root is not None else fn)

    def find(self, qualname, src, root=None):
        from .pat import afind
        return afind(self, self.func(qualname), src, root)

    def cls(self, name):
        c = self.classes.get(name)
        if c is None:
            raise AnalysisError(f"anchor lost: class {name} not found")
        return c

    def qualname_of(self, fnode):
        for q, f in self.functions.items():
            if f is fnode:
                return q
        return "?"

    def enclosing_function(self, node):
        n = node
        while n in self.parents:
            n = self.parents[n]
            if isinstance(n, (ast.FunctionDef, ast.AsyncFunctionDef)):
                return self.qualname_of(n)
        return "<module>"

    # -- class hierarchy -----------------------------------------------------------------
    def mro(self, name):
        if name in self._mro_cache:
            return self._mro_cache[name]
        if name not in self.classes:
            return [name]
        seqs = [self.mro(b) for b in self.classes[name].bases if b in self.classes] + \
               [[b for b in self.classes[name].bases if b in self.classes]]
        res = [name]
        seqs = [list(s) for s in seqs if s]
        while seqs:
            for s in seqs:
                cand = s[0]
                if not any(cand in t[1:] for t in seqs):
                    break
            else:
                raise AnalysisError(f"inconsistent MRO for {name}")
            res.append(cand)
            for s in seqs:
                if s and s[0] == cand:
                    del s[0]
            seqs = [s for s in seqs if s]
        self._mro_cache[name] = res
        return res

    def is_subclass(self, name, base):
        return base in self.mro(name)

    def subclasses(self, base, include_self=True):
        out = []
        for n in self.classes:
            if self.is_subclass(n, base) and (include_self or n != base):
                out.append(n)
        return out

    def resolve_method(self, cls, meth):
        """(owner class name, FunctionDef) via MRO, or (None, None)."""
        for c in self.mro(cls):
            ci = self.classes.get(c)
            if ci and meth in ci.methods:
                return c, ci.methods[meth]
        return None, None

    def is_abstract(self, cls):
        """A class is abstract if some abstractmethod in its MRO is not overridden below it."""
        seen = set()
        for c in self.mro(cls):
            ci = self.classes.get(c)
            if not ci:
                continue
            for m in ci.methods:
                if m in seen:
                    continue
                seen.add(m)
                if m in ci.abstract:
                    return True
        return False

    def concrete_subclasses(self, base, include_self=True):
        return [c for c in self.subclasses(base, include_self) if not self.is_abstract(c)]

    def enum_members(self, cls):
        """Ordered member names of an Enum-like class body (simple Name = value assignments)."""
        ci = self.cls(cls)
        out = []
        for st in ci.node.body:
            if isinstance(st, ast.Assign) and len(st.targets) == 1 and isinstance(st.targets[0], ast.Name):
                n = st.targets[0].id
                if not n.startswith("_"):
                    out.append((n, st.value))
        return out

    def const_return(self, cls, meth):
        """If Class.meth (via MRO) is `return <constant>` (after an optional docstring) give the constant node."""
        owner, f = self.resolve_method(cls, meth)
        if f is None:
            return None, None
        body = strip_doc(f.body)
        if len(body) == 1 and isinstance(body[0], ast.Return) and body[0].value is not None:
            return owner, body[0].value
        return owner, None


def strip_doc(body):
    if body and isinstance(body[0], ast.Expr) and isinstance(body[0].value, ast.Constant) and isinstance(body[0].value.value, str):
        return body[1:]
    return body


def walk_no_nested(node):
    """ast.walk that does not descend into nested function/class definitions (but yields the start node)."""
    todo = [node]
    first = True
    while todo:
        n = todo.pop()
        if not first and isinstance(n, (ast.FunctionDef, ast.AsyncFunctionDef, ast.ClassDef, ast.Lambda)):
            continue
        first = False
        yield n
        todo.extend(ast.iter_child_nodes(n))


def calls_in(node, nested=True):
    it = ast.walk(node) if nested else walk_no_nested(node)
    for n in it:
        if isinstance(n, ast.Call):
            yield n


def call_name(call):
    """Dotted name of the callee expression ('self.foo', 'ProgramData.do', 'len')."""
    try:
        return ast.unparse(call.func)
    except Exception:
        return "?"


def attr_chain(node):
    """['a','b','c'] for a.b.c ; None if not a pure Name/Attribute chain."""
    parts = []
    while isinstance(node, ast.Attribute):
        parts.append(node.attr)
        node = node.value
    if isinstance(node, ast.Name):
        parts.append(node.id)
        return list(reversed(parts))
    return None


def is_flag_test(node):
    """ProgramData.do(ProgramFlag.X) / cls.do(ProgramFlag.X) -> 'X' else None."""
    if isinstance(node, ast.Call) and isinstance(node.func, ast.Attribute) and node.func.attr == "do" and len(node.args) == 1:
        a = node.args[0]
        if isinstance(a, ast.Attribute) and isinstance(a.value, ast.Name) and a.value.id == "ProgramFlag":
            return a.attr
    return None


def raises_in(node, nested=False):
    it = ast.walk(node) if nested else walk_no_nested(node)
    for n in it:
        if isinstance(n, ast.Raise):
            yield n


def raised_class(r):
    """Name of the exception class of a raise statement (None for bare re-raise)."""
    e = r.exc
    if e is None:
        return None
    if isinstance(e, ast.Call):
        e = e.func
    if isinstance(e, ast.Name):
        return e.id
    if isinstance(e, ast.Attribute):
        return e.attr
    return "?"


def literal(node):
    try:
        return ast.literal_eval(node)
    except Exception:
        raise AnalysisError(f"expected a literal, got {ast.unparse(node)[:80]}")
