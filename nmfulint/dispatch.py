"""E3 dispatch-coverage analyser: which labels / classes / keys a function handles, and what its residual arm does."""
import ast
from .core import AnalysisError
from .srcmodel import strip_doc, raised_class, walk_no_nested


def _const_strs(node):
    """Set of string constants of a literal str / tuple / list / set of strs, else None."""
    if isinstance(node, ast.Constant) and isinstance(node.value, str):
        return {node.value}
    if isinstance(node, (ast.Tuple, ast.List, ast.Set)):
        out = set()
        for e in node.elts:
            if isinstance(e, ast.Constant) and isinstance(e.value, str):
                out.add(e.value)
            elif isinstance(e, ast.Starred):
                return None
            else:
                return None
        return out
    return None


def labels_of_test(test, subject, consts=None):
    """Labels for which `test` is true, when it is a membership/equality test on `subject` (source text);
    None if the test is not such a test. `consts` maps module-level names to string lists (e.g. all_sum_expr_nodes)."""
    consts = consts or {}
    if isinstance(test, ast.BoolOp) and isinstance(test.op, ast.Or):
        out = set()
        for v in test.values:
            s = labels_of_test(v, subject, consts)
            if s is None:
                return None
            out |= s
        return out
    if isinstance(test, ast.Compare) and len(test.ops) == 1 and ast.unparse(test.left) == subject:
        op, right = test.ops[0], test.comparators[0]
        if isinstance(op, ast.Eq):
            return _const_strs(right) if isinstance(right, ast.Constant) else None
        if isinstance(op, ast.In):
            s = _const_strs(right)
            if s is not None:
                return s
            if isinstance(right, ast.Name) and right.id in consts:
                return set(consts[right.id])
    return None


def residual_kind(stmts):
    """What a residual arm does: ('raise', Class) / ('return', src) / ('falloff', None) / ('other', src)."""
    stmts = [s for s in stmts if not (isinstance(s, ast.Expr) and isinstance(s.value, ast.Constant))]
    if not stmts:
        return ("falloff", None)
    last = stmts[-1]
    if isinstance(last, ast.Raise):
        return ("raise", raised_class(last))
    if isinstance(last, ast.Return):
        return ("return", ast.unparse(last.value) if last.value is not None else None)
    if isinstance(last, ast.Pass):
        return ("falloff", None)
    return ("other", ast.unparse(last)[:80])


class Dispatch:
    def __init__(self):
        self.arms = []       # (labels:set, body:[stmt], test)
        self.residual = None  # (kind, info)
        self.residual_body = []

    def handled(self):
        out = set()
        for labs, _, _ in self.arms:
            out |= labs
        return out

    def arm_for(self, label):
        for labs, body, test in self.arms:
            if label in labs:
                return body
        return None


def dispatch_on(body, subject, consts=None, allow_prefix_stmts=True):
    """Analyse a statement list that dispatches on `subject` via an if/elif chain and/or consecutive `if ...: return`.
    Statements before the first dispatching `if` are skipped; the residual is the chain's final else, or - for
    consecutive ifs whose arms all leave - whatever follows the last one."""
    body = strip_doc(body)
    d = Dispatch()
    i = 0
    n = len(body)
    found = False
    while i < n:
        st = body[i]
        if isinstance(st, ast.If) and labels_of_test(st.test, subject, consts) is not None:
            found = True
            cur = st
            closed = False
            while True:
                labs = labels_of_test(cur.test, subject, consts)
                if labs is None:
                    # an elif that is not a label test: treat as part of residual
                    d.residual_body = [cur]
                    d.residual = ("other", ast.unparse(cur.test)[:60])
                    closed = True
                    break
                d.arms.append((labs, cur.body, cur.test))
                if len(cur.orelse) == 1 and isinstance(cur.orelse[0], ast.If):
                    cur = cur.orelse[0]
                    continue
                if cur.orelse:
                    d.residual_body = cur.orelse
                    d.residual = residual_kind(cur.orelse)
                    closed = True
                break
            if closed:
                return d
            i += 1
            continue
        if found:
            # after at least one dispatching if: the rest is the residual (only sound if all arms leave)
            d.residual_body = body[i:]
            d.residual = residual_kind(body[i:])
            return d
        i += 1
    if not found:
        raise AnalysisError(f"no dispatch on {subject} found")
    d.residual = ("falloff", None)
    return d


def arms_all_leave(d):
    """True when every arm of a sequence-of-ifs dispatch ends in return/raise (so later statements are residual)."""
    for _, body, _ in d.arms:
        if not block_leaves(body):
            return False
    return True


def block_leaves(body):
    """Every path through the statement list ends in return/raise."""
    if not body:
        return False
    last = body[-1]
    if isinstance(last, (ast.Return, ast.Raise)):
        return True
    if isinstance(last, ast.If):
        return bool(last.orelse) and block_leaves(last.body) and block_leaves(last.orelse)
    return False


def isinstance_chain(body, subject):
    """Classes handled by an if/elif chain of isinstance(subject, C | (C1, C2)) tests, in order, plus residual."""
    body = strip_doc(body)
    arms = []
    residual = ("falloff", None)
    for st in body:
        if isinstance(st, ast.If):
            cur = st
            ok = _isinstance_classes(cur.test, subject)
            if ok is None:
                continue
            while True:
                cl = _isinstance_classes(cur.test, subject)
                if cl is None:
                    residual = ("other", ast.unparse(cur.test)[:60])
                    break
                arms.append((cl, cur.body))
                if len(cur.orelse) == 1 and isinstance(cur.orelse[0], ast.If):
                    cur = cur.orelse[0]
                    continue
                if cur.orelse:
                    residual = residual_kind(cur.orelse)
                break
            return arms, residual
    raise AnalysisError(f"no isinstance dispatch on {subject} found")


def _isinstance_classes(test, subject):
    if isinstance(test, ast.Call) and isinstance(test.func, ast.Name) and test.func.id == "isinstance" and len(test.args) == 2 \
            and ast.unparse(test.args[0]) == subject:
        c = test.args[1]
        if isinstance(c, ast.Name):
            return [c.id]
        if isinstance(c, ast.Tuple) and all(isinstance(e, ast.Name) for e in c.elts):
            return [e.id for e in c.elts]
    if isinstance(test, ast.BoolOp) and isinstance(test.op, ast.Or):
        out = []
        for v in test.values:
            s = _isinstance_classes(v, subject)
            if s is None:
                return None
            out += s
        return out
    return None


def dict_subscripts(fn):
    """All `{...}[key]` / `{...}.get(key, d)` sites in a function (not nested defs): (node, dictnode, keynode, has_default)."""
    out = []
    for n in walk_no_nested(fn):
        if isinstance(n, ast.Subscript) and isinstance(n.value, ast.Dict):
            out.append((n, n.value, n.slice, False))
        if isinstance(n, ast.Call) and isinstance(n.func, ast.Attribute) and n.func.attr == "get" and isinstance(n.func.value, ast.Dict) and n.args:
            out.append((n, n.func.value, n.args[0], True))
    return out


def dict_keys_src(dnode):
    return [ast.unparse(k) if k is not None else "**" for k in dnode.keys]


def dict_keys_const(dnode):
    out = []
    for k in dnode.keys:
        if isinstance(k, ast.Constant):
            out.append(k.value)
        else:
            return None
    return out
