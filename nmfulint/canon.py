"""Reference-directed restoration of behaviour-preserving rewrites (companion of alpha.py).

Rules are written against the constructs the anchored functions contain today. A maintainer who inverts an if/else, splits a condition,
flattens an `else` after a `return`, replaces a `continue`-guard by a nested `if`, swaps the operands of `==`, writes `not a in b` for
`a not in b` or introduces a temporary for a returned expression has not changed what the function does - but a rule that compares constructs
would no longer find what it looks for. Before any rule runs, every function of the tree under analysis is therefore compared with the same
function of the reference tree (`reference_nmfu.py`, the tree all rules were last confirmed against) *modulo a fixed set of equivalences*:

  both are brought into a normal form N (below); where N(current) == N(reference) - for the whole body, or for aligned runs of statements, or
  recursively inside compound statements whose headers agree - the current statements are replaced by the reference's spelling. Everything
  that does not match is left exactly as it is and is analysed as written.

Soundness: N only applies rewrites that preserve behaviour for every Python program (given the side conditions checked here), so
N(a) == N(b) implies a and b behave alike, and analysing b's spelling in place of a's is analysing an equivalent program:
  * `if t: A else: B`  ==  `if not t: B else: A`
  * an arm that ends in return / raise / continue / break never falls through:  `if t: A! else: B`  ==  `if t: A!` ; B
  * `if a: (if b: S)`  ==  `if a and b: S`   (no else on either)
  * in a loop body,  `if t: continue` ; R   ==   `if not t: R`   when R is the rest of the body
  * negation is pushed inwards in truth-value positions (De Morgan; `not a == b` -> `a != b`, `not a in b` -> `a not in b`, `not a is b` -> `a is not b`);
    outside truth-value positions only comparisons are flipped (their result is a bool either way)
  * `a == b` / `a != b` with two side-effect-free operands (names, attribute chains, constants): operand order is immaterial
  * `isinstance(x, A) or isinstance(x, B)`  ==  `isinstance(x, (A, B))`   (x side-effect free)
  * `(a and b) and c` == `a and b and c`;  `pass` next to other statements is dropped
  * a temporary that is assigned once, read once, and read in the very next statement before anything that could have a side effect is
    evaluated, is the expression it holds (`t = e; return t` == `return e`)
The equality of the reflected `==` relies on `__eq__` being symmetric for the classes of this code base (none defines `__ne__`; the `__eq__`
overrides compare type and fields).
"""
import ast, copy, os

REF_FILE = os.path.join(os.path.dirname(os.path.abspath(__file__)), "reference_nmfu.py")
TERMINAL = (ast.Return, ast.Raise, ast.Continue, ast.Break)
FLIP = {ast.Eq: ast.NotEq, ast.NotEq: ast.Eq, ast.In: ast.NotIn, ast.NotIn: ast.In, ast.Is: ast.IsNot, ast.IsNot: ast.Is}


def pure_simple(e):
    if isinstance(e, (ast.Name, ast.Constant)):
        return True
    if isinstance(e, ast.Attribute):
        return pure_simple(e.value)
    return False


def K(nodes):
    """Comparison key of a list of (normalised) nodes."""
    return "\n".join(ast.dump(n) for n in nodes)


# ------------------------------------------------------------------------------------------------ expressions
def _orient(c):
    """`a > b` is `b < a`, `a >= b` is `b <= a` (both operands effect-free: the order of evaluation is immaterial)."""
    if type(c.ops[0]) in ORD_SWAP and (pure_simple(c.left) or _intlike(c.left)) and (pure_simple(c.comparators[0]) or _intlike(c.comparators[0])):
        n = ast.Compare(c.comparators[0], [ORD_SWAP[type(c.ops[0])]()], [c.left])
        n._numeric = getattr(c, "_numeric", False)
        return n
    return c


def neg(e):
    """Logical negation of an already normalised truth-value expression (an involution on normal forms)."""
    if isinstance(e, ast.UnaryOp) and isinstance(e.op, ast.Not):
        return e.operand
    if isinstance(e, ast.Compare) and len(e.ops) == 1 and type(e.ops[0]) in ORD_FLIP and (getattr(e, "_numeric", False) or _intlike(e.left) or _intlike(e.comparators[0])):
        n = ast.Compare(e.left, [ORD_FLIP[type(e.ops[0])]()], e.comparators)      # numbers are totally ordered
        n._numeric = True
        return _orient(n)
    if isinstance(e, ast.Compare) and len(e.ops) == 1 and type(e.ops[0]) in FLIP:
        return _cmp(ast.Compare(e.left, [FLIP[type(e.ops[0])]()], e.comparators))
    if isinstance(e, ast.BoolOp):
        return _bool(ast.BoolOp(ast.Or() if isinstance(e.op, ast.And) else ast.And(), [neg(v) for v in e.values]), True)
    if isinstance(e, ast.Constant) and isinstance(e.value, bool):
        return ast.Constant(not e.value)
    return ast.UnaryOp(ast.Not(), e)


_PURE_NOW = [frozenset()]      # effect-free method names of the tree whose function is being normalised (set by Restorer.function)


def _intlike(e):
    """An expression that can only be an int: comparing it with < <= > >= makes the other side a number too (or raises either way)."""
    if isinstance(e, ast.Constant):
        return isinstance(e.value, int) and not isinstance(e.value, bool)
    if isinstance(e, ast.UnaryOp) and isinstance(e.op, (ast.USub, ast.UAdd)):
        return _intlike(e.operand)
    if isinstance(e, ast.BinOp) and isinstance(e.op, (ast.LShift, ast.Add, ast.Sub, ast.Mult, ast.RShift)):
        return _intlike(e.left) or _intlike(e.right)
    if isinstance(e, ast.Call) and isinstance(e.func, ast.Name) and e.func.id in ("len", "ord", "int"):
        return True
    return False


ORD_FLIP = {ast.Lt: ast.GtE, ast.LtE: ast.Gt, ast.Gt: ast.LtE, ast.GtE: ast.Lt}
ORD_SWAP = {ast.Gt: ast.Lt, ast.GtE: ast.LtE}


def _boolvalued(e):
    if isinstance(e, ast.Compare) or (isinstance(e, ast.UnaryOp) and isinstance(e.op, ast.Not)) or (isinstance(e, ast.Constant) and isinstance(e.value, bool)):
        return True
    if isinstance(e, ast.BoolOp):
        return all(_boolvalued(v) for v in e.values)
    return isinstance(e, ast.Call) and isinstance(e.func, ast.Name) and e.func.id in ("isinstance", "any", "all", "bool", "issubclass", "hasattr")


def _cmp(e):
    # membership in a list display of effect-free elements is membership in the tuple
    if len(e.ops) == 1 and isinstance(e.ops[0], (ast.In, ast.NotIn)) and isinstance(e.comparators[0], ast.List) and all(pure_simple(x) for x in e.comparators[0].elts):
        e = ast.Compare(e.left, e.ops, [ast.Tuple(e.comparators[0].elts, ast.Load())])
    if len(e.ops) == 1 and isinstance(e.ops[0], (ast.Eq, ast.NotEq)) and (pure_simple(e.left) or _is_pure_value(e.left, _PURE_NOW[0])) \
            and (pure_simple(e.comparators[0]) or _is_pure_value(e.comparators[0], _PURE_NOW[0])):
        a, b = e.left, e.comparators[0]
        if ast.dump(a) > ast.dump(b):
            e = ast.Compare(b, e.ops, [a])
    return e


def _bool(e, test):
    vals = []
    for v in e.values:
        if isinstance(v, ast.BoolOp) and type(v.op) is type(e.op):
            vals.extend(v.values)
        else:
            vals.append(v)
    e = ast.BoolOp(e.op, vals)
    if isinstance(e.op, ast.Or):
        # merge runs of isinstance(x, ..) over one side-effect-free subject
        out = []
        for v in vals:
            if _isinst(v) and out and _isinst(out[-1]) and ast.dump(out[-1].args[0]) == ast.dump(v.args[0]) and pure_simple(v.args[0]):
                prev = out[-1]
                out[-1] = ast.Call(prev.func, [prev.args[0], ast.Tuple(_tys(prev.args[1]) + _tys(v.args[1]), ast.Load())], [])
            else:
                out.append(v)
        if len(out) == 1:
            return out[0]
        e = ast.BoolOp(e.op, out)
    return e


def _isinst(v):
    return isinstance(v, ast.Call) and isinstance(v.func, ast.Name) and v.func.id == "isinstance" and len(v.args) == 2 and not v.keywords


def _tys(t):
    return list(t.elts) if isinstance(t, ast.Tuple) else [t]


def nexpr(e, test=False):
    """Normal form of an expression (a fresh tree). `test`: the value is only examined for its truth."""
    if e is None:
        return None
    if isinstance(e, ast.UnaryOp) and isinstance(e.op, ast.Not):
        inner = nexpr(e.operand, True)
        if test:
            return neg(inner)
        if isinstance(inner, ast.Compare) and len(inner.ops) == 1 and type(inner.ops[0]) in FLIP:
            return neg(inner)
        cand = neg(inner)
        if _boolvalued(cand):                               # De Morgan is exact where every operand of the result is a bool anyway
            return cand
        return ast.UnaryOp(ast.Not(), inner)
    if isinstance(e, ast.BoolOp):
        return _bool(ast.BoolOp(e.op, [nexpr(v, test) for v in e.values]), test)
    if isinstance(e, ast.Compare):
        c = ast.Compare(nexpr(e.left), [type(o)() for o in e.ops], [nexpr(c) for c in e.comparators])
        # a chain over effect-free middle operands is the conjunction of its links; where one operand can only be an int, all are numbers
        if len(c.ops) > 1 and all(pure_simple(m) for m in c.comparators[:-1]) and all(type(o) in ORD_FLIP for o in c.ops):
            operands = [c.left] + c.comparators
            numeric = any(_intlike(x) for x in operands)
            links = []
            for k, o in enumerate(c.ops):
                lk = ast.Compare(operands[k], [o], [operands[k + 1]])
                lk._numeric = numeric
                links.append(_orient(lk))
            return ast.BoolOp(ast.And(), links)
        if len(c.ops) == 1 and type(c.ops[0]) in ORD_FLIP:
            c._numeric = _intlike(c.left) or _intlike(c.comparators[0])
            return _orient(c)
        return _cmp(c)
    if isinstance(e, ast.IfExp):
        return ast.IfExp(nexpr(e.test, True), nexpr(e.body, test), nexpr(e.orelse, test))
    if isinstance(e, ast.Call) and _isinst(e) and isinstance(e.args[1], ast.Tuple) and len(e.args[1].elts) == 1:
        return ast.Call(e.func, [nexpr(e.args[0]), e.args[1].elts[0]], [])
    if isinstance(e, (ast.ListComp, ast.SetComp, ast.GeneratorExp, ast.DictComp)):
        new = copy.copy(e)
        gens = []
        for g in e.generators:
            gens.append(ast.comprehension(g.target, nexpr(g.iter), [nexpr(i, True) for i in g.ifs], g.is_async))
        new.generators = gens
        if isinstance(e, ast.DictComp):
            new.key, new.value = nexpr(e.key), nexpr(e.value)
        else:
            new.elt = nexpr(e.elt)
        return _canon_comp(new)
    if isinstance(e, ast.JoinedStr):
        # f"..{f'a{b}'}.." is f"..a{b}.."; adjacent literal parts are one part
        parts = []
        for v in e.values:
            if isinstance(v, ast.FormattedValue):
                inner = nexpr(v.value)
                if isinstance(inner, ast.JoinedStr) and v.conversion == -1 and v.format_spec is None:
                    parts.extend(inner.values)
                    continue
                if isinstance(inner, ast.Constant) and isinstance(inner.value, str) and v.conversion == -1 and v.format_spec is None:
                    parts.append(inner)
                    continue
                parts.append(ast.FormattedValue(inner, v.conversion, nexpr(v.format_spec) if v.format_spec is not None else None))
            else:
                parts.append(v)
        merged = []
        for v in parts:
            if isinstance(v, ast.Constant) and merged and isinstance(merged[-1], ast.Constant):
                merged[-1] = ast.Constant(merged[-1].value + v.value)
            else:
                merged.append(v)
        return ast.JoinedStr(merged)
    # generic: rebuild with normalised expression children
    new = copy.copy(e)
    for f, v in ast.iter_fields(e):
        if isinstance(v, ast.expr):
            setattr(new, f, nexpr(v))
        elif isinstance(v, list):
            setattr(new, f, [nexpr(x) if isinstance(x, ast.expr) else (_nkw(x) if isinstance(x, ast.keyword) else x) for x in v])
    return new


def _comp_height(e):
    return max([0] + [1 + _comp_height(c) if isinstance(c, (ast.ListComp, ast.SetComp, ast.GeneratorExp, ast.DictComp)) else _comp_height(c)
                      for c in ast.iter_child_nodes(e)])


class _Ren(ast.NodeTransformer):
    def __init__(self, m):
        self.m = m

    def visit_Name(self, node):
        return ast.Name(self.m[node.id], node.ctx) if node.id in self.m else node


def _canon_comp(c):
    """The variables a comprehension binds are named after their position (they are invisible outside it)."""
    h = _comp_height(c)
    names = []
    for g in c.generators:
        for n in ast.walk(g.target):
            if isinstance(n, ast.Name) and n.id not in names:
                names.append(n.id)
    m = {n: f"_c{h}_{k}" for k, n in enumerate(names)}
    r = _Ren(m)
    c = copy.deepcopy(c)
    first = c.generators[0].iter                            # evaluated in the enclosing scope
    for g in c.generators:
        g.target = r.visit(g.target)
        g.ifs = [r.visit(i) for i in g.ifs]
        if g is not c.generators[0]:
            g.iter = r.visit(g.iter)
    c.generators[0].iter = first
    if isinstance(c, ast.DictComp):
        c.key, c.value = r.visit(c.key), r.visit(c.value)
    else:
        c.elt = r.visit(c.elt)
    return c


def _nkw(k):
    return ast.keyword(k.arg, nexpr(k.value))


# ------------------------------------------------------------------------------------------------ statements
class FnInfo:
    """Per-function facts the temporary rule needs: how often each name is stored / loaded in the whole function (nested scopes included)."""
    def __init__(self, fn, pure=frozenset()):
        self.pure = pure
        self.stores, self.loads = {}, {}
        self.special = set()
        self.nested = set()     # names that occur in a nested scope (closures may read them at any time)
        self.deferred = set()   # names that occur in a nested def / lambda / class (evaluated at some later time)
        for g in ast.walk(fn):
            if g is not fn and isinstance(g, (ast.FunctionDef, ast.AsyncFunctionDef, ast.Lambda, ast.ListComp, ast.SetComp, ast.GeneratorExp, ast.DictComp, ast.ClassDef)):
                self.nested |= {n.id for n in ast.walk(g) if isinstance(n, ast.Name)}
                if not isinstance(g, (ast.ListComp, ast.SetComp, ast.GeneratorExp, ast.DictComp)):
                    self.deferred |= {n.id for n in ast.walk(g) if isinstance(n, ast.Name)}
        for n in ast.walk(fn):
            if isinstance(n, ast.Name):
                d = self.loads if isinstance(n.ctx, ast.Load) else self.stores
                d[n.id] = d.get(n.id, 0) + 1
            elif isinstance(n, ast.AugAssign) and isinstance(n.target, ast.Name):
                self.loads[n.target.id] = self.loads.get(n.target.id, 0) + 1
            elif isinstance(n, (ast.Global, ast.Nonlocal)):
                for x in n.names:
                    self.stores[x] = self.stores.get(x, 0) + 2
                    self.special.add(x)
            elif isinstance(n, ast.arg):
                self.stores[n.arg] = self.stores.get(n.arg, 0) + 2
                self.special.add(n.arg)
            elif isinstance(n, ast.ExceptHandler) and n.name:
                self.stores[n.name] = self.stores.get(n.name, 0) + 2
                self.special.add(n.name)

    def single_use(self, name):
        return self.stores.get(name) == 1 and self.loads.get(name) == 1

    def plain_local(self, name):
        """Bound by plain assignments only (not a parameter / global / nonlocal / handler name) and invisible to nested scopes."""
        return name in self.stores and name not in self.special and name not in self.nested


def _eval_order(node):
    """Sub-expressions of a statement / expression in evaluation order (approximation that is exact for the forms accepted by _inline_ok)."""
    if isinstance(node, ast.Call):
        if not pure_simple(node.func):                     # `f` / `obj.method` in callee position: looked up before the arguments either way
            yield from _eval_order(node.func)
        for a in node.args:
            yield from _eval_order(a)
        for k in node.keywords:
            yield from _eval_order(k.value)
        yield node
    elif isinstance(node, (ast.ListComp, ast.SetComp, ast.GeneratorExp, ast.DictComp)):
        yield from _eval_order(node.generators[0].iter)    # the outermost iterable is evaluated at once, once
        yield ("opaque", node)
    elif isinstance(node, ast.Lambda):
        yield ("opaque", node)
    elif isinstance(node, (ast.BoolOp, ast.IfExp)) or (isinstance(node, ast.Compare) and len(node.ops) > 1):
        # operands are evaluated conditionally: only the first one is certain
        first = node.values[0] if isinstance(node, ast.BoolOp) else (node.test if isinstance(node, ast.IfExp) else node.left)
        yield from _eval_order(first)
        yield ("opaque", node)
    elif isinstance(node, ast.Assign):
        yield from _eval_order(node.value)
        for t in node.targets:
            yield from _eval_order(t)
    elif isinstance(node, ast.AugAssign):
        yield from _eval_order(node.target)
        yield from _eval_order(node.value)
    elif isinstance(node, (ast.For, ast.AsyncFor)):
        yield from _eval_order(node.iter)
        yield ("opaque", node)
    elif isinstance(node, (ast.If,)):
        yield from _eval_order(node.test)
        yield ("opaque", node)
    elif isinstance(node, (ast.While, ast.With, ast.Try, ast.FunctionDef, ast.ClassDef, ast.Match if hasattr(ast, "Match") else ast.While)):
        yield ("opaque", node)
    elif isinstance(node, ast.Dict):
        for k, v in zip(node.keys, node.values):
            if k is not None:
                yield from _eval_order(k)
            yield from _eval_order(v)
        yield node
    elif isinstance(node, ast.AST):
        for ch in ast.iter_child_nodes(node):
            if isinstance(ch, (ast.expr_context, ast.operator, ast.unaryop, ast.cmpop, ast.boolop)):
                continue
            yield from _eval_order(ch)
        yield node


def _inline_ok(stmt, name):
    """Is the single load of `name` in `stmt` evaluated before anything that could have a side effect or observe one?"""
    for n in _eval_order(stmt):
        if isinstance(n, tuple):
            if _pure_expr(n[1]) and not any(isinstance(x, ast.Name) and x.id == name for x in ast.walk(n[1])):
                continue                                    # an effect-free conditional expression that does not mention the name: passing over it changes nothing
            return False                                    # reached a conditionally / repeatedly / later evaluated region first
        if isinstance(n, ast.Name):
            if n.id == name and isinstance(n.ctx, ast.Load):
                return True
            continue                                        # reading another plain name has no effect and cannot be affected by evaluating e first
        if isinstance(n, ast.Constant):
            continue
        if isinstance(n, ast.Attribute) and pure_simple(n):
            continue                                        # (reading a.b.c before or after e: the aliasing assumption of the module docstring)
        if isinstance(n, (ast.JoinedStr, ast.FormattedValue)):
            continue
        return False
    return False


class _Subst(ast.NodeTransformer):
    def __init__(self, name, value):
        self.name, self.value, self.done = name, value, 0

    def visit_Name(self, node):
        if node.id == self.name and isinstance(node.ctx, ast.Load):
            self.done += 1
            return self.value
        return node


def _ends_terminal(block):
    return bool(block) and isinstance(block[-1], TERMINAL)


def nlist(stmts, info, loop_tail=False):
    """Normal form of a statement list (fresh nodes)."""
    out = []
    stmts = _split_tuple_assigns(list(stmts))
    if info is not None:
        stmts = _chain_temps(stmts, info)
        stmts = _accumulate_loops(stmts, info)
    i = 0
    while i < len(stmts):
        st = stmts[i]
        # temporary read once in the next statement
        # (or: read once by the return / raise that follows - the value is dead afterwards however often the name is used elsewhere;
        #  or: read once by the very next statement, which assigns the name anew - `x = a; x = f(x)` is `x = f(a)`)
        if isinstance(st, ast.Assign) and len(st.targets) == 1 and isinstance(st.targets[0], ast.Name) and i + 1 < len(stmts) and info is not None \
                and (info.single_use(st.targets[0].id) or (isinstance(stmts[i + 1], (ast.Return, ast.Raise)) and info.plain_local(st.targets[0].id))
                     or (isinstance(stmts[i + 1], ast.Assign) and len(stmts[i + 1].targets) == 1 and isinstance(stmts[i + 1].targets[0], ast.Name)
                         and stmts[i + 1].targets[0].id == st.targets[0].id and info.plain_local(st.targets[0].id))):
            nm = st.targets[0].id
            nxt = stmts[i + 1]
            hdr = _header_only(nxt)
            if sum(1 for n in ast.walk(hdr) if isinstance(n, ast.Name) and n.id == nm and isinstance(n.ctx, ast.Load)) == 1 and _inline_ok(nxt, nm):
                s = _Subst(nm, copy.deepcopy(st.value))
                new = copy.deepcopy(nxt)
                _subst_header(new, s)
                if s.done == 1:
                    stmts[i + 1] = new
                    i += 1
                    continue
        out.extend(nstmt(st, info))
        i += 1
    out = [s for s in out if not isinstance(s, ast.Pass)] or ([ast.Pass()] if out else [])
    if info is not None:
        out = _sink_and_sort_assigns(out, info)            # (on the flattened list: where an initialisation may stand does not depend on how the block was nested)
    # adjacent guards with the same leaving body are one guard: `if a: X!` ; `if b: X!`  ==  `if a or b: X!`
    k = 0
    while k + 1 < len(out):
        s1, s2 = out[k], out[k + 1]
        if isinstance(s1, ast.If) and isinstance(s2, ast.If) and not s1.orelse and not s2.orelse and _ends_terminal(s1.body) and K(s1.body) == K(s2.body):
            out[k:k + 2] = [ast.If(_bool(ast.BoolOp(ast.Or(), [s1.test, s2.test]), True), s1.body, [])]
            continue
        k += 1
    # `if t: A!` followed by a rest that leaves as well is an if/else with two leaving arms: either may be written first
    k = len(out) - 2
    while k >= 0:
        s = out[k]
        if isinstance(s, ast.If) and not s.orelse and _ends_terminal(s.body) and _ends_terminal(out[k + 1:]):
            if ast.dump(s.test) > ast.dump(neg(s.test)):
                out = out[:k] + [ast.If(neg(s.test), out[k + 1:], [])] + s.body
        k -= 1
    # nested ifs / else flattening may have produced `if` runs; flatten else after terminal arms was done in nstmt (returns lists)
    if loop_tail:
        return _retail(out)
    return out


PURE_BUILTINS = {"id", "len", "type", "isinstance", "issubclass", "ord", "chr", "str", "int", "bool", "float", "tuple", "frozenset", "min", "max", "abs", "repr", "getattr",
                 "hasattr", "any", "all", "sum", "format", "hash", "sorted", "list", "set", "dict", "enumerate", "zip", "range", "reversed", "iter", "next"}
PURE_VALUE_BUILTINS = PURE_BUILTINS - {"sorted", "list", "set", "dict", "enumerate", "zip", "range", "reversed", "iter", "next"}     # (no fresh mutable object, no output)
PURE_METHODS = {"get", "keys", "values", "items", "index", "count", "startswith", "endswith", "upper", "lower", "strip", "lstrip", "rstrip", "split", "join", "isdigit", "isascii",
                "replace", "format", "encode", "decode", "isdisjoint", "issubset", "issuperset", "bit_length", "isalpha", "isalnum", "isidentifier"}
PURE_DOTTED = {"os.path.basename", "os.path.splitext", "os.path.dirname", "os.path.join", "itertools.chain"}


def pure_function_names(tree):
    """Names of functions / methods ALL of whose definitions in the module are effect-free: they assign only to their own local names, declare no global / nonlocal,
    do not yield, and call only effect-free builtins, effect-free methods of built-in types and each other (greatest fixed point)."""
    defs = {}
    for n in ast.walk(tree):
        if isinstance(n, (ast.FunctionDef, ast.AsyncFunctionDef)):
            defs.setdefault(n.name, []).append(n)
    cand = set(defs)

    MUTATORS = {"append", "extend", "add", "update", "insert", "sort", "pop", "remove", "discard", "clear", "setdefault", "reverse"}

    def fresh_locals(fn):
        """Local names that only ever hold a container built in this call (mutating those is no effect anyone else can see)."""
        vals = {}
        for n in ast.walk(fn):
            if isinstance(n, ast.Assign):
                for t in n.targets:
                    if isinstance(t, ast.Name):
                        vals.setdefault(t.id, []).append(n.value)
                    else:
                        for x in ast.walk(t):
                            if isinstance(x, ast.Name):
                                vals.setdefault(x.id, []).append(None)
            elif isinstance(n, (ast.For, ast.comprehension)):
                for x in ast.walk(n.target):
                    if isinstance(x, ast.Name):
                        vals.setdefault(x.id, []).append(None)
            elif isinstance(n, ast.arg):
                vals.setdefault(n.arg, []).append(None)
        def fresh(v):
            return isinstance(v, (ast.List, ast.Set, ast.Dict, ast.ListComp, ast.SetComp, ast.DictComp)) or \
                (isinstance(v, ast.Call) and isinstance(v.func, ast.Name) and v.func.id in ("list", "set", "dict", "sorted"))
        return {k for k, vs in vals.items() if vs and all(v is not None and fresh(v) for v in vs)}

    def ok(fn, cand):
        fl = fresh_locals(fn)
        for n in ast.walk(fn):
            if isinstance(n, ast.Call) and isinstance(n.func, ast.Attribute) and n.func.attr in MUTATORS and isinstance(n.func.value, ast.Name) and n.func.value.id in fl:
                n._fresh_mut = True
            if isinstance(n, ast.AugAssign) and isinstance(n.target, ast.Name):
                continue
        for n in ast.walk(fn):
            if isinstance(n, (ast.Global, ast.Nonlocal, ast.Yield, ast.YieldFrom, ast.Await, ast.With, ast.AsyncWith, ast.Delete, ast.Import, ast.ImportFrom)):
                return False
            if isinstance(n, (ast.Attribute, ast.Subscript)) and not isinstance(n.ctx, ast.Load):
                return False
            if isinstance(n, ast.Call):
                f = n.func
                if isinstance(f, ast.Name):
                    if f.id not in PURE_BUILTINS and f.id not in cand:
                        return False
                elif isinstance(f, ast.Attribute):
                    if ast.unparse(f) in PURE_DOTTED or getattr(n, "_fresh_mut", False):
                        continue
                    if f.attr not in PURE_METHODS and f.attr not in cand:
                        return False
                else:
                    return False
        return True
    while True:
        bad = {name for name in cand if not all(ok(fn, cand) for fn in defs[name])}
        if not bad:
            return frozenset(cand)
        cand -= bad


def _is_pure_value(e, pure):
    """Evaluating e has no effect, builds no fresh mutable object, and gives the same answer as long as nothing it reads is changed."""
    if isinstance(e, (ast.Name, ast.Constant)):
        return True
    if isinstance(e, ast.Attribute):
        return _is_pure_value(e.value, pure)
    if isinstance(e, ast.Subscript):
        return _is_pure_value(e.value, pure) and (isinstance(e.slice, ast.Slice) is False) and _is_pure_value(e.slice, pure)
    if isinstance(e, ast.UnaryOp):
        return _is_pure_value(e.operand, pure)
    if isinstance(e, ast.BinOp):
        return _is_pure_value(e.left, pure) and _is_pure_value(e.right, pure)
    if isinstance(e, ast.BoolOp):
        return all(_is_pure_value(v, pure) for v in e.values)
    if isinstance(e, ast.Compare):
        return _is_pure_value(e.left, pure) and all(_is_pure_value(c, pure) for c in e.comparators)
    if isinstance(e, ast.IfExp):
        return all(_is_pure_value(x, pure) for x in (e.test, e.body, e.orelse))
    if isinstance(e, ast.Tuple):
        return all(_is_pure_value(x, pure) for x in e.elts)
    if isinstance(e, ast.JoinedStr):
        return all(isinstance(v, ast.Constant) or (isinstance(v, ast.FormattedValue) and v.format_spec is None and _is_pure_value(v.value, pure)) for v in e.values)
    if isinstance(e, ast.Call):
        if e.keywords and any(k.arg is None for k in e.keywords):
            return False
        args = list(e.args) + [k.value for k in e.keywords]
        if not all(_is_pure_value(a, pure) for a in args):
            return False
        f = e.func
        if isinstance(f, ast.Name):
            return f.id in PURE_VALUE_BUILTINS
        if isinstance(f, ast.Attribute):
            if ast.unparse(f) in PURE_DOTTED - {"itertools.chain"}:
                return True
            return (f.attr in pure or f.attr in PURE_METHODS - {"keys", "values", "items", "split"}) and _is_pure_value(f.value, pure)
    return False


def _read_paths(e):
    """Texts of everything e reads through (sub-chains and call receivers), and the root names."""
    paths, roots = set(), set()
    for n in ast.walk(e):
        if isinstance(n, ast.Name):
            roots.add(n.id)
            paths.add(n.id)
        elif isinstance(n, (ast.Attribute, ast.Subscript)):
            paths.add(ast.unparse(n))
    return paths, roots


def _value_stable(e, rest, pure):
    """Nothing in `rest` visibly changes what e reads: no root rebound, no store into / deletion from a path, no method that may mutate called on a path object, no path
    object (other than the value itself) handed to a callee that may mutate it. (Changes through an alias that is not spelled like a path are not seen: see DESIGN 9.9.)"""
    paths, roots = _read_paths(e)
    whole = ast.unparse(e)
    builtin_roots = {r for r in roots if r in PURE_BUILTINS or r in ("os", "itertools", "self", "cls")}
    for s_ in rest:
        for n in ast.walk(s_):
            if isinstance(n, ast.Name) and n.id in roots and not isinstance(n.ctx, ast.Load):
                return False
            if isinstance(n, (ast.Attribute, ast.Subscript)) and not isinstance(n.ctx, ast.Load) and (ast.unparse(n) in paths or ast.unparse(n.value) in paths - builtin_roots):
                return False
            if isinstance(n, ast.AugAssign) and ast.unparse(n.target) in paths:
                return False
            if isinstance(n, ast.Call):
                callee_pure = (isinstance(n.func, ast.Name) and (n.func.id in PURE_BUILTINS or n.func.id in pure)) or \
                              (isinstance(n.func, ast.Attribute) and (n.func.attr in pure or n.func.attr in PURE_METHODS or ast.unparse(n.func) in PURE_DOTTED))
                if callee_pure:
                    continue
                if isinstance(n.func, ast.Attribute):
                    recv = ast.unparse(n.func.value)
                    if recv in paths - builtin_roots and recv != whole:
                        return False
                for a in list(n.args) + [k.value for k in n.keywords]:
                    if isinstance(a, ast.Starred):
                        a = a.value
                    t = ast.unparse(a)
                    if t in paths - builtin_roots and t != whole and not isinstance(a, ast.Constant):
                        # a plain local name handed on is only a problem if the value reads THROUGH it
                        if any(p.startswith(t + ".") or p.startswith(t + "[") for p in paths):
                            return False
            if isinstance(n, ast.ExceptHandler) and n.name in roots:
                return False
            if isinstance(n, (ast.Global, ast.Nonlocal)):
                return False
    return True


def _is_chain(e):
    """name / attribute / constant-subscript chain: evaluating it has no effect and yields the same object until a prefix of it is rebound"""
    if isinstance(e, ast.Name):
        return True
    if isinstance(e, ast.Attribute):
        return _is_chain(e.value)
    if isinstance(e, ast.Subscript):
        ix = e.slice
        if isinstance(ix, ast.UnaryOp) and isinstance(ix.op, ast.USub):
            ix = ix.operand
        return isinstance(ix, ast.Constant) and isinstance(ix.value, (int, str)) and _is_chain(e.value)
    return False


def _prefixes(e):
    out = []
    while isinstance(e, (ast.Attribute, ast.Subscript)):
        out.append(ast.unparse(e))
        e = e.value
    out.append(ast.unparse(e))
    return out, e.id


def _split_tuple_assigns(stmts):
    """`a, b = x, y`  ==  `a = x` ; `b = y`   when no right-hand side reads a target assigned before it (plain names on the left)."""
    out = []
    for st in stmts:
        if isinstance(st, ast.Assign) and len(st.targets) == 1 and isinstance(st.targets[0], ast.Tuple) and isinstance(st.value, ast.Tuple) \
                and len(st.targets[0].elts) == len(st.value.elts) and all(isinstance(t, ast.Name) for t in st.targets[0].elts) \
                and not any(isinstance(v, ast.Starred) for v in st.value.elts):
            names = [t.id for t in st.targets[0].elts]
            ok = len(set(names)) == len(names)
            for k, v in enumerate(st.value.elts):
                if any(isinstance(n, ast.Name) and n.id in names[:k] for n in ast.walk(v)):
                    ok = False
            if ok:
                out.extend(ast.Assign([ast.Name(n, ast.Store())], v) for n, v in zip(names, st.value.elts))
                continue
        out.append(st)
    return out


def _simple_init(st, pure):
    """`name = <constant | empty container | effect-free value>`"""
    if not (isinstance(st, ast.Assign) and len(st.targets) == 1 and isinstance(st.targets[0], ast.Name)):
        return False
    v = st.value
    if isinstance(v, ast.Constant):
        return True
    if isinstance(v, (ast.List, ast.Set, ast.Dict, ast.Tuple)) and not (getattr(v, "elts", None) or getattr(v, "keys", None)):
        return True
    if isinstance(v, ast.Call) and isinstance(v.func, ast.Name) and v.func.id in ("set", "list", "dict") and not v.args and not v.keywords:
        return True
    return False


def _sink_and_sort_assigns(stmts, info):
    """An initialisation `x = <constant / empty container>` has no effect until x is mentioned: it stands directly in front of the first statement of its block
    that mentions x; initialisations that end up next to each other are ordered by name. (Two spellings that differ only in where such initialisations stand,
    or in the order of adjacent ones, get the same normal form.)"""
    pure = getattr(info, "pure", frozenset())
    stmts = list(stmts)
    moved = True
    guard = 0
    while moved and guard < 50:
        moved = False
        guard += 1
        for i, st in enumerate(stmts):
            if not _simple_init(st, pure):
                continue
            x = st.targets[0].id
            if x in info.deferred or x in info.special:
                continue
            j = next((k for k in range(i + 1, len(stmts)) if _occ(stmts[k], x)), None)
            if j is None or j == i + 1:
                continue
            # everything skipped must be unable to leave the block with x observable elsewhere: x is only observable through later statements of this block or
            # after it; leaving early (return / raise / break / continue inside the skipped statements) would leave x unassigned where the original had assigned it
            skipped = stmts[i + 1:j]
            if any(isinstance(n, (ast.Return, ast.Raise, ast.Break, ast.Continue, ast.Yield, ast.YieldFrom)) for s_ in skipped for n in ast.walk(s_)):
                continue
            stmts = stmts[:i] + skipped + [st] + stmts[j:]
            moved = True
            break
    # adjacent assignments of effect-free values to distinct names, none reading another's target: by name
    def indep(st):
        if not (isinstance(st, ast.Assign) and len(st.targets) == 1 and isinstance(st.targets[0], ast.Name)):
            return False
        v = st.value
        if _simple_init(st, pure) or _is_pure_value(v, pure):
            return True
        if isinstance(v, ast.Call) and isinstance(v.func, ast.Name) and v.func.id in ("any", "all") and len(v.args) == 1 and isinstance(v.args[0], ast.GeneratorExp):
            g = v.args[0]
            return _is_pure_value(g.elt, pure) and all(_is_pure_value(c.iter, pure) and all(_is_pure_value(i, pure) for i in c.ifs) for c in g.generators)
        return False
    k = 0
    while k < len(stmts):
        m = k
        while m < len(stmts) and indep(stmts[m]):
            m += 1
        if m - k > 1:
            run = stmts[k:m]
            names = [r.targets[0].id for r in run]
            reads = lambda r: {n.id for n in ast.walk(r.value) if isinstance(n, ast.Name)}
            if len(set(names)) == len(names) and not any(reads(r) & (set(names) - {r.targets[0].id}) for r in run) and not any(r.targets[0].id in reads(r) for r in run):
                stmts[k:m] = sorted(run, key=lambda r: r.targets[0].id)
        k = max(m, k + 1)
    return stmts


def _inline_new_temps(fn, info, only):
    """Apply the temporary rules to every block of fn in place, for the names in `only`."""
    def visit(node):
        for f in ("body", "orelse", "finalbody"):
            blk = getattr(node, f, None)
            if isinstance(blk, list) and blk and isinstance(blk[0], ast.stmt):
                for st in blk:
                    if not isinstance(st, (ast.FunctionDef, ast.AsyncFunctionDef, ast.ClassDef)):
                        visit(st)
                new = _chain_temps(blk, info, only)
                new = _single_use_temps(new, info, only)
                setattr(node, f, new or [ast.Pass()])
        if isinstance(node, ast.Try):
            for h in node.handlers:
                visit(h)
    visit(fn)


def _single_use_temps(stmts, info, only):
    """`t = e` read once by the next statement before anything with an effect is evaluated (t in `only`): the next statement with e in place of t."""
    out = list(stmts)
    i = 0
    while i + 1 < len(out):
        st = out[i]
        if isinstance(st, ast.Assign) and len(st.targets) == 1 and isinstance(st.targets[0], ast.Name) and st.targets[0].id in only:
            nm = st.targets[0].id
            nxt = out[i + 1]
            if (info.single_use(nm) or (isinstance(nxt, (ast.Return, ast.Raise)) and info.plain_local(nm))) and nm not in info.deferred:
                hdr = _header_only(nxt)
                if sum(1 for n in ast.walk(hdr) if isinstance(n, ast.Name) and n.id == nm and isinstance(n.ctx, ast.Load)) == 1 and _inline_ok(nxt, nm):
                    sub = _Subst(nm, copy.deepcopy(st.value))
                    new = copy.deepcopy(nxt)
                    _subst_header(new, sub)
                    if sub.done == 1:
                        out[i:i + 2] = [new]
                        i = max(i - 1, 0)
                        continue
        i += 1
    return out


def _chain_temps(stmts, info, only=None):
    """`t = a.b[0]` (assigned once, read only by later statements of this block, no prefix of the chain rebound or handed to anything that
    could rebind it in between) names the chain: every read of t is a read of the chain."""
    stmts = list(stmts)
    i = 0
    while i < len(stmts):
        st = stmts[i]
        pure = getattr(info, "pure", frozenset())
        if isinstance(st, ast.Assign) and len(st.targets) == 1 and isinstance(st.targets[0], ast.Name) and not isinstance(st.value, (ast.Name, ast.Constant)) \
                and (_is_chain(st.value) or _is_pure_value(st.value, pure)) and (only is None or st.targets[0].id in only):
            t = st.targets[0].id
            rest = stmts[i + 1:]
            if info.stores.get(t) == 1 and t not in info.special and t not in info.deferred and rest:
                loads = sum(1 for s_ in rest for n in ast.walk(s_) if isinstance(n, ast.Name) and n.id == t and isinstance(n.ctx, ast.Load))
                stable = _chain_stable(st.value, rest, t) if _is_chain(st.value) else _value_stable(st.value, rest, pure)
                if loads == info.loads.get(t, 0) and loads >= 1 and stable:
                    sub = _SubstAll(t, st.value)
                    stmts = stmts[:i] + [sub.visit(copy.deepcopy(s_)) for s_ in rest]
                    continue
        i += 1
    return stmts


class _SubstAll(ast.NodeTransformer):
    def __init__(self, name, value):
        self.name, self.value = name, value

    def visit_Name(self, node):
        if node.id == self.name and isinstance(node.ctx, ast.Load):
            return copy.deepcopy(self.value)
        return node


def _chain_stable(e, rest, t):
    pre, root = _prefixes(e)
    pre = set(pre)
    for s_ in rest:
        for n in ast.walk(s_):
            if isinstance(n, ast.Name) and n.id == root and not isinstance(n.ctx, ast.Load):
                return False
            if isinstance(n, (ast.Attribute, ast.Subscript)) and not isinstance(n.ctx, ast.Load) and (ast.unparse(n) in pre or ast.unparse(n.value) in pre):
                return False
            if isinstance(n, ast.AugAssign) and ast.unparse(n.target) in pre:
                return False
            if isinstance(n, ast.Call):
                if isinstance(n.func, ast.Attribute) and ast.unparse(n.func.value) in pre and ast.unparse(n.func.value) != ast.unparse(e):
                    return False                            # a method of a prefix object may rebind what the chain walks through
                for a in list(n.args) + [k.value for k in n.keywords]:
                    if isinstance(a, ast.Starred):
                        a = a.value
                    if ast.unparse(a) in pre and ast.unparse(a) != ast.unparse(e):
                        return False                        # a prefix object handed to a callee
            if isinstance(n, (ast.ExceptHandler,)) and n.name == root:
                return False
            if isinstance(n, (ast.Global, ast.Nonlocal)):
                return False
    return True


def _loop_core(f, info):
    """The generators of a (possibly nested) for loop whose body is, after normalisation, one conditional / one inner loop / one leaf: ([comprehension..], leaf statements)."""
    gens, node = [], f
    while True:
        if node.orelse:
            return None
        body = nlist(node.body, info, loop_tail=True)
        g = ast.comprehension(node.target, nexpr(node.iter), [], 0)
        gens.append(g)
        if len(body) == 1 and isinstance(body[0], ast.If) and not body[0].orelse:
            g.ifs.append(body[0].test)
            body = body[0].body
        if len(body) == 1 and isinstance(body[0], ast.For):
            node = body[0]
            continue
        return gens, body


def _const(st, v):
    return isinstance(st, ast.Return) and isinstance(st.value, ast.Constant) and st.value.value is v


def _accumulate_loops(stmts, info):
    """Loops that only collect or only search are the comprehension / any() they compute:
       v = [..] ; for..: v.append(E) | v.extend(E)      ==  v = [..] + [E for ..]            (likewise sets with .add)
       for..: if c: return True ; return False           ==  return any(c for ..)             (and the negated form)
       for..: if c: raise X                              ==  if any(c for ..): raise X        (X does not mention the loop variables)
       for..: if c: flag = K [; break]                   ==  if any(c for ..): flag = K       (c effect-free when there is no break)
    The loop variables must not be read outside the loop, the collected name not inside the expressions."""
    stmts = list(stmts)
    pure = getattr(info, "pure", frozenset())
    i = 0
    while i < len(stmts):
        f = stmts[i]
        if not isinstance(f, ast.For):
            i += 1
            continue
        core = _loop_core(f, info)
        if core is None:
            i += 1
            continue
        gens, leaf = core
        tnames = {n.id for g in gens for n in ast.walk(g.target) if isinstance(n, ast.Name)}
        inside = sum(1 for n in ast.walk(f) if isinstance(n, ast.Name) and n.id in tnames and isinstance(n.ctx, ast.Load))
        total = sum(info.loads.get(x, 0) for x in tnames)
        if inside != total or (tnames & info.special) or (tnames & info.deferred) or not all(isinstance(n, ast.Name) for g in gens for n in ast.walk(g.target) if isinstance(n, (ast.Name, ast.Attribute, ast.Subscript))):
            i += 1
            continue
        mentions = lambda x, names: any(isinstance(n, ast.Name) and n.id in names for n in ast.walk(x))
        prev = stmts[i - 1] if i > 0 else None
        nxt = stmts[i + 1] if i + 1 < len(stmts) else None

        def gen_any():
            gs = copy.deepcopy(gens)
            cond = gs[-1].ifs.pop() if gs[-1].ifs else ast.Constant(True)
            return ast.Call(ast.Name("any", ast.Load()), [ast.GeneratorExp(cond, gs)], [])
        new = None
        span = (i, i + 1)
        if len(leaf) == 1:
            lf = leaf[0]
            call = lf.value if isinstance(lf, ast.Expr) and isinstance(lf.value, ast.Call) else None
            # collectors
            if call is not None and isinstance(call.func, ast.Attribute) and isinstance(call.func.value, ast.Name) and call.func.attr in ("append", "extend", "add") \
                    and len(call.args) == 1 and not call.keywords and isinstance(prev, ast.Assign) and len(prev.targets) == 1 and isinstance(prev.targets[0], ast.Name) \
                    and prev.targets[0].id == call.func.value.id:
                v = prev.targets[0].id
                is_list = isinstance(prev.value, ast.List)
                is_set = isinstance(prev.value, ast.Call) and isinstance(prev.value.func, ast.Name) and prev.value.func.id == "set" and not prev.value.args
                if v not in tnames and not any(mentions(x, {v}) for g in gens for x in [g.iter] + g.ifs) and not mentions(call.args[0], {v}) \
                        and ((is_list and call.func.attr in ("append", "extend")) or (is_set and call.func.attr == "add")):
                    gs = copy.deepcopy(gens)
                    elt = call.args[0]
                    if call.func.attr == "extend":
                        gs.append(ast.comprehension(ast.Name("_x", ast.Store()), call.args[0], [], 0))
                        elt = ast.Name("_x", ast.Load())
                    comp = ast.ListComp(elt, gs) if is_list else ast.SetComp(elt, gs)
                    val = comp if (is_set or not prev.value.elts) else ast.BinOp(prev.value, ast.Add(), comp)
                    new = [ast.Assign([ast.Name(v, ast.Store())], val)]
                    span = (i - 1, i + 1)
            # searches
            elif _const(lf, True) and _const(nxt, False):
                new, span = [ast.Return(gen_any())], (i, i + 2)
            elif _const(lf, False) and _const(nxt, True):
                new, span = [ast.Return(ast.UnaryOp(ast.Not(), gen_any()))], (i, i + 2)
            elif isinstance(lf, ast.Raise) and not mentions(lf, tnames):
                new = [ast.If(gen_any(), [lf], [])]
            elif isinstance(lf, ast.Assign) and len(lf.targets) == 1 and isinstance(lf.targets[0], ast.Name) and isinstance(lf.value, ast.Constant) and lf.targets[0].id not in tnames \
                    and not any(mentions(x, {lf.targets[0].id}) for g in gens for x in [g.iter] + g.ifs) \
                    and all(_is_pure_value(x, pure) for g in gens for x in [g.iter] + g.ifs):
                new = [ast.If(gen_any(), [lf], [])]
        elif len(leaf) == 2 and isinstance(leaf[1], ast.Break) and len(gens) == 1 and isinstance(leaf[0], ast.Assign) and len(leaf[0].targets) == 1 and isinstance(leaf[0].targets[0], ast.Name) \
                and isinstance(leaf[0].value, ast.Constant) and leaf[0].targets[0].id not in tnames and not any(mentions(x, {leaf[0].targets[0].id}) for g in gens for x in [g.iter] + g.ifs):
            new = [ast.If(gen_any(), [leaf[0]], [])]
        if new is not None:
            stmts[span[0]:span[1]] = new
            i = span[0] + 1
            continue
        i += 1
    return stmts


def _retail(out):
    """Loop body: a `continue` guard is the nested form `if not t: <rest of the body>`; a trailing `continue` is a no-op."""
    out = list(out)
    while len(out) > 1 and isinstance(out[-1], ast.Continue):
        out.pop()
    for k, s in enumerate(out):
        if isinstance(s, ast.If) and not s.orelse and len(s.body) == 1 and isinstance(s.body[0], ast.Continue) and k + 1 < len(out):
            rest = _retail(out[k + 1:])
            return out[:k] + _merge_guard(neg(s.test), rest)
    # the body of an if that ends the loop body is itself the end of the loop body
    if out and isinstance(out[-1], ast.If) and not out[-1].orelse and not _is_guard(out[-1]):
        last = out[-1]
        return out[:-1] + _merge_guard(last.test, _retail(last.body))
    return out


def _is_guard(ifst):
    return len(ifst.body) == 1 and isinstance(ifst.body[0], TERMINAL)


def _header_only(st):
    """The part of a statement evaluated when it is reached (compound statements: their header expression)."""
    if isinstance(st, ast.If):
        return st.test
    if isinstance(st, (ast.For, ast.AsyncFor)):
        return st.iter
    if isinstance(st, (ast.While, ast.With, ast.Try, ast.FunctionDef, ast.ClassDef)):
        return ast.Pass()
    return st


def _subst_header(st, s):
    if isinstance(st, ast.If):
        st.test = s.visit(st.test)
    elif isinstance(st, (ast.For, ast.AsyncFor)):
        st.iter = s.visit(st.iter)
    elif isinstance(st, (ast.While, ast.With, ast.Try, ast.FunctionDef, ast.ClassDef)):
        pass
    else:
        for f, v in list(ast.iter_fields(st)):
            if isinstance(v, ast.AST):
                setattr(st, f, s.visit(v))
            elif isinstance(v, list):
                setattr(st, f, [s.visit(x) if isinstance(x, ast.AST) else x for x in v])


def nstmt(st, info):
    """Normal form of one statement: a list of statements (else-flattening splices)."""
    if isinstance(st, ast.If):
        t = nexpr(st.test, True)
        A = nlist(st.body, info)
        B = nlist(st.orelse, info) if st.orelse else []
        if len(B) == 1 and isinstance(B[0], ast.Pass):
            B = []
        if not B:
            # merge nested ifs
            if len(A) == 1 and isinstance(A[0], ast.If) and not A[0].orelse:
                return [ast.If(_bool(ast.BoolOp(ast.And(), [t, A[0].test]), True), A[0].body, [])]
            return [ast.If(t, A, [])]
        ta, tb = _ends_terminal(A), _ends_terminal(B)
        if ta:                                              # (both arms leaving: oriented by nlist, which sees the same thing written without else)
            return _merge_guard(t, A) + B
        if tb:
            return _merge_guard(neg(t), B) + A
        if ast.dump(t) > ast.dump(neg(t)):
            t, A, B = neg(t), B, A
        return [ast.If(t, A, B)]
    if isinstance(st, (ast.For, ast.AsyncFor)):
        new = copy.copy(st)
        new.iter = nexpr(st.iter)
        new.body = nlist(st.body, info, loop_tail=True)
        new.orelse = nlist(st.orelse, info)
        new.type_comment = None
        return [new]
    if isinstance(st, ast.While):
        return [ast.While(nexpr(st.test, True), nlist(st.body, info, loop_tail=True), nlist(st.orelse, info))]
    if isinstance(st, (ast.With, ast.AsyncWith)):
        new = copy.copy(st)
        new.items = [ast.withitem(nexpr(w.context_expr), w.optional_vars) for w in st.items]
        new.body = nlist(st.body, info)
        return [new]
    if isinstance(st, ast.Try):
        new = copy.copy(st)
        new.body = nlist(st.body, info)
        new.handlers = [ast.ExceptHandler(h.type, h.name, nlist(h.body, info)) for h in st.handlers]
        new.orelse = nlist(st.orelse, info)
        new.finalbody = nlist(st.finalbody, info)
        return [new]
    if isinstance(st, (ast.FunctionDef, ast.AsyncFunctionDef)):
        new = copy.copy(st)
        new.body = nlist(st.body, FnInfo(st, getattr(info, "pure", frozenset())))
        return [new]
    if isinstance(st, ast.ClassDef):
        return [st]
    if isinstance(st, ast.AnnAssign) and st.value is not None and isinstance(st.target, ast.Name):
        return [ast.Assign([st.target], nexpr(st.value))]
    if isinstance(st, ast.Assert):
        return [ast.Assert(nexpr(st.test, True), st.msg)]
    new = copy.copy(st)
    for f, v in ast.iter_fields(st):
        if isinstance(v, ast.expr):
            setattr(new, f, nexpr(v))
        elif isinstance(v, list) and v and isinstance(v[0], ast.expr):
            setattr(new, f, [nexpr(x) for x in v])
    return [new]


def _merge_guard(t, A):
    if len(A) == 1 and isinstance(A[0], ast.If) and not A[0].orelse:
        return [ast.If(_bool(ast.BoolOp(ast.And(), [t, A[0].test]), True), A[0].body, [])]
    return [ast.If(t, A, [])]


# ------------------------------------------------------------------------------------------------ restoration
class Restorer:
    def __init__(self, pure_c=frozenset(), pure_r=frozenset()):
        self.pure_c, self.pure_r = pure_c, pure_r
        self.restored = 0       # statements replaced by the reference's spelling
        self.kept = 0           # statements that did not match (analysed as written)

    def function(self, cf, rf):
        if ast.dump(cf) == ast.dump(rf):
            return False
        ic, ir = FnInfo(cf, self.pure_c), FnInfo(rf, self.pure_r)
        _PURE_NOW[0] = self.pure_c & self.pure_r
        before = ast.dump(cf)
        if _args_key(cf.args) == _args_key(rf.args) and K(cf.decorator_list) == K(rf.decorator_list):
            try:
                same = alpha_key(cf, self.pure_c) == alpha_key(rf, self.pure_r)
            except RecursionError:
                same = False
            if same:                                        # equal up to N and a consistent renaming of locals: the reference's spelling, whole
                cf.body = copy.deepcopy(rf.body)
                cf.args = copy.deepcopy(rf.args)
                cf.returns = copy.deepcopy(rf.returns)
                self.restored += len(rf.body)
                return True
        # temporaries the reference does not know (names bound here and nowhere in the reference's function) are put back first, in the function itself:
        # the statement alignment below works on runs of statements and could not see a temporary that is defined in one run and read in another
        ref_names = {n.id for n in ast.walk(rf) if isinstance(n, ast.Name)}
        new_names = {n.id for n in ast.walk(cf) if isinstance(n, ast.Name) and isinstance(n.ctx, ast.Store)} - ref_names
        if new_names:
            _inline_new_temps(cf, ic, new_names)
            ic = FnInfo(cf, self.pure_c)
        cf.body = self.block(cf.body, rf.body, ic, ir, False)
        if _args_key(cf.args) == _args_key(rf.args):      # annotations are not behaviour
            cf.args = copy.deepcopy(rf.args)
            cf.returns = copy.deepcopy(rf.returns)
        return ast.dump(cf) != before

    def block(self, cs, rs, ic, ir, loop_tail):
        if not cs or not rs:
            return cs
        if K(cs) == K(rs):
            return cs
        if K(nlist(cs, ic, loop_tail)) == K(nlist(rs, ir, loop_tail)):
            self.restored += len(rs)
            return copy.deepcopy(rs)
        pre, i, j = [], 0, 0
        ce, re_ = len(cs), len(rs)
        SHAPES = [(1, 1), (2, 1), (1, 2), (2, 2), (3, 1), (1, 3), (3, 2), (2, 3)]
        while i < ce and j < re_:
            for k, m in SHAPES:
                if i + k <= ce and j + m <= re_ and (k, m) != (ce - i, re_ - j) and K(nlist(cs[i:i + k], ic)) == K(nlist(rs[j:j + m], ir)):
                    pre += copy.deepcopy(rs[j:j + m])
                    self.restored += m
                    i += k
                    j += m
                    break
            else:
                break
        post = []
        while i < ce and j < re_:
            for k, m in SHAPES:
                if ce - k >= i and re_ - m >= j and (k, m) != (ce - i, re_ - j) and K(nlist(cs[ce - k:ce], ic, loop_tail and not post)) == K(nlist(rs[re_ - m:re_], ir, loop_tail and not post)):
                    post = copy.deepcopy(rs[re_ - m:re_]) + post
                    self.restored += m
                    ce -= k
                    re_ -= m
                    break
            else:
                break
        mc, mr = cs[i:ce], rs[j:re_]
        tail = loop_tail and not post
        if mc and mr and K(nlist(mc, ic, tail)) == K(nlist(mr, ir, tail)):
            mid = copy.deepcopy(mr)
            self.restored += len(mr)
        elif len(mc) == len(mr) and all(type(a) is type(b) for a, b in zip(mc, mr)):
            mid = [self.stmt(a, b, ic, ir) for a, b in zip(mc, mr)]
        elif mc and mr and type(mc[0]) is type(mr[0]) and isinstance(mc[0], (ast.If, ast.For, ast.While, ast.With, ast.Try)) and (len(mc) == 1 or len(mr) == 1):
            # one side absorbed the rest of the block into an arm (else after return) - pair the heads, keep the remainder
            mid = [self.stmt(mc[0], mr[0], ic, ir)] + mc[1:]
            self.kept += len(mc) - 1
        else:
            mid = mc
            self.kept += len(mc)
        return pre + mid + post

    def stmt(self, c, r, ic, ir):
        if isinstance(c, ast.If):
            tc, tr = nexpr(c.test, True), nexpr(r.test, True)
            if ast.dump(tc) == ast.dump(tr):
                return ast.If(copy.deepcopy(r.test), self.block(c.body, r.body, ic, ir, False), self.block(c.orelse, r.orelse, ic, ir, False) if c.orelse and r.orelse else c.orelse)
            if ast.dump(tc) == ast.dump(neg(tr)) and c.orelse and r.orelse:
                return ast.If(copy.deepcopy(r.test), self.block(c.orelse, r.body, ic, ir, False), self.block(c.body, r.orelse, ic, ir, False))
            self.kept += 1
            return ast.If(c.test, self.block(c.body, r.body, ic, ir, False), self.block(c.orelse, r.orelse, ic, ir, False) if c.orelse and r.orelse else c.orelse)
        if isinstance(c, (ast.For, ast.AsyncFor)):
            new = copy.copy(c)
            if ast.dump(nexpr(c.iter)) == ast.dump(nexpr(r.iter)) and ast.dump(c.target) == ast.dump(r.target):
                new.iter = copy.deepcopy(r.iter)
            new.body = self.block(c.body, r.body, ic, ir, True)
            new.orelse = self.block(c.orelse, r.orelse, ic, ir, False)
            return new
        if isinstance(c, ast.While):
            new = copy.copy(c)
            if ast.dump(nexpr(c.test, True)) == ast.dump(nexpr(r.test, True)):
                new.test = copy.deepcopy(r.test)
            new.body = self.block(c.body, r.body, ic, ir, True)
            new.orelse = self.block(c.orelse, r.orelse, ic, ir, False)
            return new
        if isinstance(c, (ast.With, ast.AsyncWith)):
            new = copy.copy(c)
            new.body = self.block(c.body, r.body, ic, ir, False)
            return new
        if isinstance(c, ast.Try):
            new = copy.copy(c)
            new.body = self.block(c.body, r.body, ic, ir, False)
            if len(c.handlers) == len(r.handlers):
                new.handlers = [ast.ExceptHandler(h.type, h.name, self.block(h.body, g.body, ic, ir, False)) for h, g in zip(c.handlers, r.handlers)]
            new.orelse = self.block(c.orelse, r.orelse, ic, ir, False)
            new.finalbody = self.block(c.finalbody, r.finalbody, ic, ir, False)
            return new
        if isinstance(c, (ast.FunctionDef, ast.AsyncFunctionDef)) and c.name == r.name:
            self.function(c, r)
            return c
        self.kept += 1
        return c


def _args_key(a):
    """Signature without annotations."""
    a = copy.deepcopy(a)
    for x in a.args + a.kwonlyargs + a.posonlyargs + [y for y in (a.vararg, a.kwarg) if y]:
        x.annotation = None
        x.type_comment = None
    return ast.dump(a)


def _functions(tree):
    out = {}

    def rec(node, prefix):
        for st in node.body:
            if isinstance(st, (ast.FunctionDef, ast.AsyncFunctionDef)):
                out.setdefault(prefix + st.name, st)
            elif isinstance(st, ast.ClassDef):
                rec(st, prefix + st.name + ".")
    rec(tree, "")
    return out


_REF_CACHE = {}


def load_reference():
    try:
        mt = os.path.getmtime(REF_FILE)
    except OSError:
        return None
    if _REF_CACHE.get("mt") != mt:
        with open(REF_FILE, encoding="utf-8") as f:
            _REF_CACHE["tree"] = ast.parse(f.read())
        _REF_CACHE["mt"] = mt
        _REF_CACHE["fns"] = _functions(_REF_CACHE["tree"])
        _REF_CACHE["dumps"] = {q: ast.dump(f) for q, f in _REF_CACHE["fns"].items()}
        _REF_CACHE["pure"] = pure_function_names(_REF_CACHE["tree"])
    return _REF_CACHE


def restore(tree, ref=None):
    """Replace, in place, statements of `tree` by the reference's spelling wherever both are equal modulo the equivalences above.
    Returns {qualname: (restored, kept)} for the functions that were touched."""
    ref = load_reference() if ref is None else ref
    if ref is None:
        return {}
    applied = {}
    inlined = inline_new_constants(tree, ref["tree"]) + inline_new_helpers(tree, ref)
    if inlined:
        applied["<helpers put back>"] = (len(inlined), 0, True)
    pure_c = None
    for q, cf in _functions(tree).items():
        rf = ref["fns"].get(q)
        if rf is None or ast.dump(cf) == ref["dumps"][q]:
            continue
        if pure_c is None:
            pure_c = pure_function_names(tree)
        r = Restorer(pure_c, ref["pure"])
        changed = r.function(cf, rf)
        applied[q] = (r.restored, r.kept, changed)          # (nodes may have been rebuilt even when nothing changed: the caller re-parses)
    return applied


# ------------------------------------------------------------------------------------------------ helpers that the reference does not have
def _pure_expr(e):
    """Evaluating e has no effect and calls nothing (it may be evaluated again, or later, as long as what it reads is not rebound)."""
    for n in ast.walk(e):
        if isinstance(n, (ast.Call, ast.Await, ast.Yield, ast.YieldFrom, ast.NamedExpr, ast.Lambda, ast.ListComp, ast.SetComp, ast.GeneratorExp, ast.DictComp, ast.Starred)):
            return False
        if isinstance(n, ast.Subscript) and not isinstance(n.slice, ast.Constant):
            return False
    return True


def _roots(e):
    return {n.id for n in ast.walk(e) if isinstance(n, ast.Name)}


def _local_names(fn):
    """Names bound in fn's own scope (parameters excluded)."""
    out = set()
    todo = list(fn.body)
    while todo:
        n = todo.pop()
        if isinstance(n, (ast.FunctionDef, ast.AsyncFunctionDef, ast.ClassDef)):
            out.add(n.name)
            continue
        if isinstance(n, (ast.Lambda, ast.ListComp, ast.SetComp, ast.GeneratorExp, ast.DictComp)):
            continue                                        # (their variables are their own)
        if isinstance(n, ast.Name) and isinstance(n.ctx, (ast.Store, ast.Del)):
            out.add(n.id)
        if isinstance(n, ast.ExceptHandler) and n.name:
            out.add(n.name)
        todo.extend(ast.iter_child_nodes(n))
    return out


def _param_names(fn):
    a = fn.args
    return [x.arg for x in a.posonlyargs + a.args], [x.arg for x in a.kwonlyargs], (a.vararg.arg if a.vararg else None), (a.kwarg.arg if a.kwarg else None)


class _Helper:
    """A function of the current tree that the reference tree does not have, in a form that can be put back where it is called."""
    def __init__(self, fn, kind):
        self.fn, self.kind = fn, kind                       # kind: 'method' | 'static' | 'nested'
        body = list(fn.body)
        if body and isinstance(body[0], ast.Expr) and isinstance(body[0].value, ast.Constant) and isinstance(body[0].value.value, str):
            body = body[1:]
        self.body = body
        pos, kwo, var, kw = _param_names(fn)
        if kind == "method":
            pos = pos[1:]
        self.pos, self.kwonly, self.kwarg = pos, kwo, kw
        self.ok = bool(body) and var is None and not fn.decorator_list[1:] and not any(isinstance(n, (ast.Yield, ast.YieldFrom, ast.Await, ast.Global, ast.Nonlocal)) for n in ast.walk(fn))
        rets = [n for st in body for n in _walk_own(st) if isinstance(n, ast.Return)]
        self.expr_only = len(body) == 1 and isinstance(body[0], ast.Return) and body[0].value is not None
        self.tail_return = bool(rets) and len(rets) == 1 and rets[0] is body[-1]
        self.no_return = not rets
        self.multi = False
        if not (self.expr_only or self.tail_return or self.no_return):
            tb = _tailify(body)
            if tb is not None:
                self.body, self.multi = tb, True
            else:
                self.ok = False
        if any(isinstance(n, ast.Name) and n.id == fn.name for st in body for n in ast.walk(st)):
            self.ok = False                                 # recursive
        self.locals = _local_names(fn)
        defaults = fn.args.defaults
        self.defaults = dict(zip((pos + [])[len(pos) - len(defaults):], defaults)) if defaults else {}
        for k, d in zip(fn.args.kwonlyargs, fn.args.kw_defaults):
            if d is not None:
                self.defaults[k.arg] = d
        if kw is not None:
            # **kw may only be forwarded, once, as **kw of one call
            uses = [n for st in body for n in ast.walk(st) if isinstance(n, ast.Name) and n.id == kw]
            fw = [k for st in body for c in ast.walk(st) if isinstance(c, ast.Call) for k in c.keywords if k.arg is None and isinstance(k.value, ast.Name) and k.value.id == kw]
            if len(uses) != 1 or len(fw) != 1:
                self.ok = False

    def bind(self, call):
        """param -> argument expression for this call, plus the extra keywords for **kw; None if the call cannot be matched."""
        if any(isinstance(a, ast.Starred) for a in call.args) or any(k.arg is None for k in call.keywords) or len(call.args) > len(self.pos):
            return None
        m = dict(zip(self.pos, call.args))
        extra = []
        for k in call.keywords:
            if k.arg in self.pos or k.arg in self.kwonly:
                if k.arg in m:
                    return None
                m[k.arg] = k.value
            elif self.kwarg is not None:
                extra.append(k)
            else:
                return None
        for p in self.pos + self.kwonly:
            if p not in m:
                if p not in self.defaults or not isinstance(self.defaults[p], ast.Constant):
                    return None
                m[p] = self.defaults[p]
        return m, extra


def _has_return(node):
    return any(isinstance(n, ast.Return) for n in _walk_own(node))


def _tail_complete(stmts):
    """Every path through stmts ends in a return."""
    if not stmts:
        return False
    last = stmts[-1]
    if isinstance(last, (ast.Return, ast.Raise)):
        return True
    if isinstance(last, ast.If) and last.orelse:
        return _tail_complete(last.body) and _tail_complete(last.orelse)
    return False


def _tailify(stmts):
    """Early-return guards turned into if/else so that every `return` is the last thing on its path; None if a return sits inside a loop / try / with."""
    out = []
    for i, st in enumerate(stmts):
        if not _has_return(st):
            out.append(st)
            continue
        if isinstance(st, ast.Return):
            return out + [st]
        if isinstance(st, ast.If):
            rest = stmts[i + 1:]
            body = _tailify(st.body + ([] if _tail_complete(st.body) else rest))
            orelse = _tailify((st.orelse if st.orelse else []) + ([] if (st.orelse and _tail_complete(st.orelse)) else rest))
            if body is None or orelse is None or not _tail_complete(body) or not _tail_complete(orelse):
                return None
            return out + [ast.If(st.test, body, orelse)]
        return None
    return out if not any(_has_return(x) for x in out) else None


def _replace_tail_returns(stmts, make):
    out = list(stmts[:-1])
    last = stmts[-1]
    if isinstance(last, ast.Return):
        out.extend(make(last.value if last.value is not None else ast.Constant(None)))
    elif isinstance(last, ast.If):
        out.append(ast.If(last.test, _replace_tail_returns(last.body, make), _replace_tail_returns(last.orelse, make)))
    else:
        out.append(last)
    return out


def _walk_own(node):
    todo = [node]
    while todo:
        n = todo.pop()
        yield n
        for ch in ast.iter_child_nodes(n):
            if not isinstance(ch, (ast.FunctionDef, ast.AsyncFunctionDef, ast.Lambda, ast.ClassDef)):
                todo.append(ch)


class _ParamSubst(ast.NodeTransformer):
    def __init__(self, m, kwarg, extra):
        self.m, self.kwarg, self.extra = m, kwarg, extra

    def visit_Name(self, node):
        if node.id in self.m and isinstance(node.ctx, ast.Load):
            return copy.deepcopy(self.m[node.id])
        return node

    def visit_Call(self, node):
        self.generic_visit(node)
        if self.kwarg is not None:
            kws = []
            for k in node.keywords:
                if k.arg is None and isinstance(k.value, ast.Name) and k.value.id == self.kwarg:
                    kws.extend(copy.deepcopy(self.extra))
                else:
                    kws.append(k)
            node.keywords = kws
        return node


def _instantiate(h, call, caller_locals, caller_fn):
    """Body of helper h for this call (statements, value expression or None); None if putting it back here could change behaviour."""
    b = h.bind(call)
    if b is None:
        return None
    m, extra = b
    stored = {n.id for st in h.body for n in ast.walk(st) if isinstance(n, ast.Name) and not isinstance(n.ctx, ast.Load)}
    for p, a in m.items():
        if p in stored:
            return None                                     # the helper rebinds its parameter
        uses = sum(1 for st in h.body for n in ast.walk(st) if isinstance(n, ast.Name) and n.id == p)
        if not _pure_expr(a) and not (uses <= 1 and h.expr_only and len(m) == 1):
            return None
        if _roots(a) & stored:
            return None                                     # the body rebinds something the argument reads
    for k in extra:
        if not _pure_expr(k.value):
            return None
    if h.kind != "nested":
        comp_vars = {n.id for st in h.body for c in ast.walk(st) if isinstance(c, ast.comprehension) for n in ast.walk(c.target) if isinstance(n, ast.Name)}
        free = {n.id for st in h.body for n in ast.walk(st) if isinstance(n, ast.Name)} - set(m) - h.locals - comp_vars - ({h.kwarg} if h.kwarg else set())
        if h.kind == "method":
            free.discard("self")                            # called through self: the same object
        if free & caller_locals:
            return None                                     # a caller's local would capture a name the helper reads from the module
    if (h.locals - stored) or (h.locals & caller_locals):
        # the helper's own locals would collide with the caller's (or are bound in ways not handled): keep the call
        if h.locals & caller_locals:
            return None
    ps = _ParamSubst(m, h.kwarg, extra)
    body = [ps.visit(copy.deepcopy(st)) for st in h.body]
    if h.expr_only:
        return [], body[0].value
    if h.multi:
        return ("multi", body), None
    if h.tail_return:
        return body[:-1], body[-1].value
    return body, None


def inline_new_helpers(tree, ref):
    """Put helpers that the reference tree does not have back where they are called (methods called through self / the class, nested functions called
    by name). Inlining a non-recursive function whose arguments are effect-free expressions, whose names mean the same in the caller, and whose
    only `return` is its last statement preserves behaviour. Returns the names inlined."""
    done = []
    classes = {c.name: c for c in tree.body if isinstance(c, ast.ClassDef)}

    def ancestors(c):
        out, todo = [], [c]
        while todo:
            x = todo.pop()
            for b in x.bases:
                bn = b.id if isinstance(b, ast.Name) else None
                if bn in classes and classes[bn] not in out:
                    out.append(classes[bn])
                    todo.append(classes[bn])
        return out

    own_helpers = {}
    for cls in [None] + list(classes.values()):
        owner = tree if cls is None else cls
        prefix = "" if cls is None else cls.name + "."
        hs = {}
        for st in owner.body:
            if isinstance(st, ast.FunctionDef) and prefix + st.name not in ref["fns"]:
                decs = [ast.unparse(d) for d in st.decorator_list]
                kind = "static" if (cls is None or decs == ["staticmethod"]) else ("method" if not decs else None)
                if kind:
                    h = _Helper(st, kind)
                    if h.ok:
                        hs[st.name] = h
        own_helpers[cls.name if cls else None] = hs
    all_used = set()
    for cls in [None] + list(classes.values()):
        owner = tree if cls is None else cls
        prefix = "" if cls is None else cls.name + "."
        helpers = dict(own_helpers[None]) if cls is not None else {}
        if cls is not None:
            for a in reversed(ancestors(cls)):
                if not any(isinstance(st, ast.FunctionDef) and st.name in own_helpers[a.name] for st in cls.body):
                    helpers.update(own_helpers[a.name])
            own_names = {st.name for st in cls.body if isinstance(st, ast.FunctionDef)}
            helpers = {k: v for k, v in helpers.items() if k not in own_names or k in own_helpers[cls.name]}
        helpers.update(own_helpers[cls.name if cls else None])
        for fn in [st for st in owner.body if isinstance(st, ast.FunctionDef)]:
            if fn.name in own_helpers[cls.name if cls else None]:
                continue
            local_h = dict(helpers)
            rfn = ref["fns"].get(prefix + fn.name)
            rnested = {n.name for n in ast.walk(rfn) if isinstance(n, ast.FunctionDef)} if rfn is not None else set()
            nested_defs = []
            if rfn is not None:
                for n in ast.walk(fn):
                    if isinstance(n, ast.FunctionDef) and n is not fn and n.name not in rnested:
                        h = _Helper(n, "nested")
                        if h.ok:
                            local_h[n.name] = h
                            nested_defs.append(n)
            if not local_h:
                continue
            used = _inline_in_function(fn, local_h, cls)
            if used:
                all_used |= {local_h[u].fn for u in used}
                done.extend(prefix + fn.name + " <- " + u for u in sorted(used))
                # a nested helper that is no longer called is dropped, so that the function can match the reference again
                for nd in nested_defs:
                    if nd.name in used and not any(isinstance(n, ast.Name) and n.id == nd.name for n in ast.walk(fn)):
                        _remove_stmt(fn, nd)
    # a helper method that nothing refers to any more is dropped as well (it is not part of the reference's vocabulary)
    for hfn in all_used:
        refs = sum(1 for n in ast.walk(tree) if (isinstance(n, ast.Attribute) and n.attr == hfn.name) or (isinstance(n, ast.Name) and n.id == hfn.name))
        if refs == 0:
            for owner in [tree] + list(classes.values()):
                if any(x is hfn for x in owner.body):
                    owner.body[:] = [x for x in owner.body if x is not hfn] or [ast.Pass()]
    return done


def _remove_stmt(fn, node):
    for n in ast.walk(fn):
        for f in ("body", "orelse", "finalbody"):
            blk = getattr(n, f, None)
            if isinstance(blk, list) and any(x is node for x in blk):
                blk[:] = [x for x in blk if x is not node] or [ast.Pass()]
                return


def _callee(call, helpers, cls):
    f = call.func
    if isinstance(f, ast.Name) and f.id in helpers and helpers[f.id].kind in ("nested", "static"):
        return helpers[f.id]
    if isinstance(f, ast.Attribute) and isinstance(f.value, ast.Name) and f.attr in helpers:
        h = helpers[f.attr]
        if h.kind == "method" and f.value.id == "self":
            return h
        if h.kind == "static" and cls is not None and f.value.id in ("self", "cls", cls.name):
            return h
    return None


def _inline_in_function(fn, helpers, cls):
    used = set()
    caller_locals = _local_names(fn) | set(sum([_param_names(fn)[0], _param_names(fn)[1]], []))

    def block(stmts):
        out = []
        for st in stmts:
            for f in ("body", "orelse", "finalbody"):
                blk = getattr(st, f, None)
                if isinstance(blk, list) and blk and isinstance(blk[0], ast.stmt) and not isinstance(st, (ast.FunctionDef, ast.ClassDef)):
                    setattr(st, f, block(blk))
            if isinstance(st, ast.Try):
                for hd in st.handlers:
                    hd.body = block(hd.body)
            # statement forms: h(..) ; x = h(..) ; return h(..)
            call = None
            if isinstance(st, ast.Expr) and isinstance(st.value, ast.Call):
                call = st.value
            elif isinstance(st, ast.Assign) and isinstance(st.value, ast.Call):
                call = st.value
            elif isinstance(st, ast.AugAssign) and isinstance(st.value, ast.Call):
                call = st.value
            elif isinstance(st, ast.Return) and isinstance(st.value, ast.Call):
                call = st.value
            h = _callee(call, helpers, cls) if call is not None else None
            if h is not None and not h.expr_only:
                inst = _instantiate(h, call, caller_locals, fn)
                if inst is not None and isinstance(inst[0], tuple):
                    # several returns, each the last thing on its path: every `return e` becomes what this statement does with the result
                    if isinstance(st, ast.Assign):
                        make = lambda v, st=st: [ast.Assign(copy.deepcopy(st.targets), v)]
                    elif isinstance(st, ast.Return):
                        make = lambda v: [ast.Return(v)]
                    elif isinstance(st, ast.Expr):
                        make = lambda v: ([] if _pure_expr(v) else [ast.Expr(v)])
                    else:
                        make = None
                    if make is not None and _tail_complete(inst[0][1]):
                        used.add(h.fn.name)
                        out.extend(_replace_tail_returns(inst[0][1], make))
                        continue
                    inst = None
                if inst is not None:
                    pre, val = inst
                    used.add(h.fn.name)
                    out.extend(pre)
                    if isinstance(st, ast.Expr):
                        if val is not None and not _pure_expr(val):
                            out.append(ast.Expr(val))
                    elif val is not None:
                        new = copy.copy(st)
                        new.value = val
                        out.append(new)
                    else:
                        new = copy.copy(st)
                        new.value = ast.Constant(None)
                        out.append(new)
                    continue
            # expression helpers anywhere in the statement's own expressions
            out.append(_ExprInline(helpers, cls, caller_locals, fn, used).visit_own(st))
        return out

    fn.body = block(fn.body)
    return used


class _ExprInline(ast.NodeTransformer):
    def __init__(self, helpers, cls, caller_locals, fn, used):
        self.helpers, self.cls, self.caller_locals, self.fn, self.used = helpers, cls, caller_locals, fn, used

    def visit_own(self, st):
        for f, v in list(ast.iter_fields(st)):
            if f in ("body", "orelse", "finalbody", "handlers"):
                continue
            if isinstance(v, ast.AST):
                setattr(st, f, self.visit(v))
            elif isinstance(v, list):
                setattr(st, f, [self.visit(x) if isinstance(x, ast.AST) else x for x in v])
        return st

    def visit_FunctionDef(self, node):
        return node

    def visit_Lambda(self, node):
        return node

    def visit_Call(self, node):
        self.generic_visit(node)
        h = _callee(node, self.helpers, self.cls)
        if h is not None and h.expr_only:
            inst = _instantiate(h, node, self.caller_locals, self.fn)
            if inst is not None:
                self.used.add(h.fn.name)
                return inst[1]
        return node


# ------------------------------------------------------------------------------------------------ names: webs and canonical local names
def _occ(node, x):
    """Number of occurrences of the name x in node (nested scopes included)."""
    return sum(1 for n in ast.walk(node) if (isinstance(n, ast.Name) and n.id == x) or (isinstance(n, ast.ExceptHandler) and n.name == x)
               or (isinstance(n, (ast.FunctionDef, ast.AsyncFunctionDef)) and n.name == x) or (isinstance(n, ast.arg) and n.arg == x))


def _rename_all(node, x, new):
    for n in ast.walk(node):
        if isinstance(n, ast.Name) and n.id == x:
            n.id = new
        elif isinstance(n, ast.ExceptHandler) and n.name == x:
            n.name = new


def _group_start(st, x):
    """Does st give x a value of its own before anything reads x?  'assign': x = <no x> ; 'for': for .. x .. in <no x>: with every other occurrence inside its body"""
    if isinstance(st, ast.Assign) and any(isinstance(t, ast.Name) and t.id == x for t in st.targets) and not _occ(st.value, x) \
            and all(isinstance(t, ast.Name) or not _occ(t, x) for t in st.targets):
        return "assign"
    if isinstance(st, ast.For) and _occ(st.target, x) and not _occ(st.iter, x) and not any(_occ(s, x) for s in st.orelse) \
            and all(isinstance(n, ast.Name) for n in ast.walk(st.target) if isinstance(n, (ast.Name, ast.Attribute, ast.Subscript))):
        return "for"
    return None


def _closed(st, x):
    """A compound statement inside which every use of x starts from a value given there (nothing flows in; what flows out is only read by nobody, see _partition)."""
    if isinstance(st, ast.If):
        heads, blocks = [st.test], [st.body, st.orelse]
    elif isinstance(st, ast.While):
        heads, blocks = [st.test], [st.body, st.orelse]
    elif isinstance(st, (ast.For, ast.AsyncFor)):
        heads, blocks = [st.target, st.iter], [st.body, st.orelse]
    elif isinstance(st, (ast.With, ast.AsyncWith)):
        heads, blocks = [w.context_expr for w in st.items] + [w.optional_vars for w in st.items if w.optional_vars is not None], [st.body]
    else:
        return False
    if any(_occ(h, x) for h in heads):
        return False
    return all(_partition(b, x) is not None for b in blocks if any(_occ(s, x) for s in b))


def _partition(block, x):
    """Split the statements of block that mention x into webs (runs that start with a statement giving x a fresh value); None if x's value may flow in from outside
    or out of a loop / conditional into a later read."""
    holders = [s for s in block if _occ(s, x)]
    groups = []
    for s in holders:
        k = _group_start(s, x)
        if k == "for":
            groups.append(("for", [s]))
        elif k == "assign":
            groups.append(("assign", [s]))
        elif _closed(s, x):
            groups.append(("closed", [s]))
        elif groups and groups[-1][0] == "assign":
            groups[-1][1].append(s)
        else:
            return None
    return [g for _, g in groups]


def split_webs(fn, info, counter=None):
    """Rename apart the independent uses of one local name (a loop variable used by two loops, a scratch name reused by the arms of an if/elif chain):
    every web starts by giving the name a value of its own, so no value flows between webs and the renaming cannot be observed."""
    counter = [0] if counter is None else counter
    skip = set(info.special) | set(info.deferred)
    in_loop = set()
    for lp in ast.walk(fn):
        if isinstance(lp, (ast.For, ast.While, ast.AsyncFor)) or (isinstance(lp, (ast.FunctionDef, ast.Lambda)) and lp is not fn):
            in_loop |= {id(n) for n in ast.walk(lp) if n is not lp}
    for _ in range(6):
        changed = False
        names = sorted({n.id for n in ast.walk(fn) if isinstance(n, ast.Name) and isinstance(n.ctx, ast.Store)} - skip)
        for x in names:
            total = _occ(fn, x)
            for node in ast.walk(fn):
                # (a) sibling statements of one block
                for f in ("body", "orelse", "finalbody"):
                    blk = getattr(node, f, None)
                    if not (isinstance(blk, list) and blk and isinstance(blk[0], ast.stmt)) or isinstance(node, ast.ClassDef):
                        continue
                    inside = sum(_occ(s, x) for s in blk)
                    if inside != total or sum(1 for s in blk if _occ(s, x)) < 2:
                        continue
                    groups = _partition(blk, x)
                    if groups and len(groups) > 1:
                        for g in groups:
                            new = f"{x}__w{counter[0]}"
                            counter[0] += 1
                            for s in g:
                                _rename_all(s, x, new)
                        changed = True
                        break
                else:
                    # (b) the exclusive arms of an if / elif chain
                    if isinstance(node, ast.If):
                        arms, cur, tests = [], node, []
                        while True:
                            tests.append(cur.test)
                            arms.append(cur.body)
                            if len(cur.orelse) == 1 and isinstance(cur.orelse[0], ast.If):
                                cur = cur.orelse[0]
                            else:
                                if cur.orelse:
                                    arms.append(cur.orelse)
                                break
                        with_x = [a for a in arms if any(_occ(s, x) for s in a)]
                        if len(with_x) >= 2 and not any(_occ(t, x) for t in tests) and sum(_occ(s, x) for a in with_x for s in a) == total:
                            closed = [a for a in with_x if _partition(a, x)]
                            # arms are exclusive; outside a loop no value can reach one arm from another, so the self-contained arms can be renamed apart one by one
                            if len(closed) == len(with_x) or (closed and id(node) not in in_loop):
                                for a in closed:
                                    new = f"{x}__w{counter[0]}"
                                    counter[0] += 1
                                    for s in a:
                                        _rename_all(s, x, new)
                                changed = len(closed) >= 2 or len(closed) < len(with_x)
                    if changed:
                        break
                    continue
                break
            if changed:
                break
        if not changed:
            break
    # nested functions are scopes of their own
    todo = list(ast.iter_child_nodes(fn))
    while todo:
        n = todo.pop()
        if isinstance(n, (ast.FunctionDef, ast.AsyncFunctionDef)):
            split_webs(n, FnInfo(n), counter)
            # what a nested function binds is its own, whatever the enclosing function calls its variables
            ginfo = FnInfo(n)
            for x in sorted(_local_names(n) - ginfo.special):
                _rename_all(n, x, f"{x}__s{counter[0]}")
                counter[0] += 1
        elif not isinstance(n, (ast.Lambda, ast.ClassDef)):
            todo.extend(ast.iter_child_nodes(n))


def alpha_key(fn, pure=frozenset()):
    """Dump of fn's normal form with its webs renamed apart and every local (variables, nested functions and their parameters, handler names) named after the
    position of its first occurrence: equal keys = equal up to a consistent renaming of locals (and the equivalences of N)."""
    f2 = copy.deepcopy(fn)
    split_webs(f2, FnInfo(f2, pure))
    info = FnInfo(f2, pure)
    f2.body = nlist(f2.body, info)
    if f2.body and isinstance(f2.body[0], ast.Expr) and isinstance(f2.body[0].value, ast.Constant) and isinstance(f2.body[0].value.value, str):
        f2.body = f2.body[1:] or [ast.Pass()]
    f2 = ast.fix_missing_locations(f2)
    info2 = FnInfo(f2)
    split_webs(f2, info2)
    fixed = set(_param_names(fn)[0]) | set(_param_names(fn)[1]) | {p for p in _param_names(fn)[2:] if p} | {x for x in info2.special if info2.stores.get(x, 0) and x not in info2.loads}
    globals_ = {x for n in ast.walk(f2) if isinstance(n, (ast.Global, ast.Nonlocal)) for x in n.names}
    local = set()
    for n in ast.walk(f2):
        if isinstance(n, ast.Name) and isinstance(n.ctx, (ast.Store, ast.Del)):
            local.add(n.id)
        elif isinstance(n, ast.ExceptHandler) and n.name:
            local.add(n.name)
        elif isinstance(n, (ast.FunctionDef, ast.AsyncFunctionDef)) and n is not f2:
            local.add(n.name)
            # parameters of nested helpers are private as long as no call names them
            kw_used = {k.arg for c in ast.walk(f2) if isinstance(c, ast.Call) and isinstance(c.func, ast.Name) and c.func.id == n.name for k in c.keywords}
            for a in n.args.posonlyargs + n.args.args:
                if a.arg not in kw_used:
                    local.add(("param", n.name, a.arg))
        elif isinstance(n, ast.Lambda):
            for a in n.args.args:
                local.add(("param", id(n), a.arg))
    local -= fixed | globals_
    mapping, order = {}, []

    def name_for(x):
        if x not in mapping:
            mapping[x] = f"_v{len(mapping)}"
        return mapping[x]

    def rec(node, scope):
        """scope: names that are locals here (outer locals + this nested function's parameters)"""
        if isinstance(node, (ast.FunctionDef, ast.AsyncFunctionDef)) and node is not f2:
            if node.name in scope:
                node.name = name_for(node.name)
            inner = set(scope)
            for a in node.args.posonlyargs + node.args.args + node.args.kwonlyargs + [y for y in (node.args.vararg, node.args.kwarg) if y]:
                if ("param", node.name if node.name not in mapping.values() else node.name, a.arg) in local or any(isinstance(t, tuple) and t[2] == a.arg and t[0] == "param" for t in local):
                    key = ("p", id(node), a.arg)
                    mapping.setdefault(key, f"_v{len(mapping)}")
                    inner = {s for s in inner if s != a.arg} | {("p", id(node), a.arg)}
                    a.arg = mapping[key]
                    a.annotation = None
                else:
                    inner.discard(a.arg)
            for d in node.args.defaults + [d for d in node.args.kw_defaults if d is not None]:
                rec(d, scope)
            node.returns = None
            for st in node.body:
                rec(st, inner)
            return
        if isinstance(node, ast.Lambda):
            inner = set(scope)
            for a in node.args.args:
                key = ("p", id(node), a.arg)
                mapping.setdefault(key, f"_v{len(mapping)}")
                inner = {s for s in inner if s != a.arg} | {key}
                a.arg = mapping[key]
            rec(node.body, inner)
            return
        if isinstance(node, ast.Name):
            pk = next((s for s in scope if isinstance(s, tuple) and s[2] == node.id), None)
            if pk is not None:
                node.id = mapping[pk]
            elif node.id in scope:
                node.id = name_for(node.id)
            return
        if isinstance(node, ast.ExceptHandler) and node.name and node.name in scope:
            node.name = name_for(node.name)
        for ch in ast.iter_child_nodes(node):
            rec(ch, scope)

    plain = {x for x in local if isinstance(x, str)}
    for a in f2.args.posonlyargs + f2.args.args + f2.args.kwonlyargs:
        a.annotation = None
    f2.returns = None
    for st in f2.body:
        rec(st, plain)
    return ast.dump(ast.Module(f2.body, []))


# ------------------------------------------------------------------------------------------------ named constants the reference does not have
def inline_new_constants(tree, ref_tree):
    """A module- or class-level name bound once to a literal, never stored to anywhere else, is the literal."""
    def level_consts(owner):
        out = {}
        for st in owner.body:
            tgt = None
            if isinstance(st, ast.Assign) and len(st.targets) == 1 and isinstance(st.targets[0], ast.Name):
                tgt, val = st.targets[0].id, st.value
            elif isinstance(st, ast.AnnAssign) and isinstance(st.target, ast.Name) and st.value is not None:
                tgt, val = st.target.id, st.value
            if tgt and isinstance(val, ast.Constant) and isinstance(val.value, (str, int, bytes)) and not isinstance(val.value, bool):
                out[tgt] = (st, val)
        return out
    ref_mod = set(level_consts(ref_tree)) | {n.id for st in ref_tree.body for n in ast.walk(st) if isinstance(n, ast.Name) and isinstance(n.ctx, ast.Store)}
    ref_cls = {c.name: {n.id for st in c.body if not isinstance(st, (ast.FunctionDef, ast.ClassDef)) for n in ast.walk(st) if isinstance(n, ast.Name) and isinstance(n.ctx, ast.Store)}
               for c in ref_tree.body if isinstance(c, ast.ClassDef)}
    stores_attr = {n.attr for n in ast.walk(tree) if isinstance(n, ast.Attribute) and not isinstance(n.ctx, ast.Load)}
    stores_name = {}
    for n in ast.walk(tree):
        if isinstance(n, ast.Name) and not isinstance(n.ctx, ast.Load):
            stores_name[n.id] = stores_name.get(n.id, 0) + 1
    done = []
    # class level
    for c in [c for c in tree.body if isinstance(c, ast.ClassDef)]:
        for name, (st, val) in level_consts(c).items():
            if name in ref_cls.get(c.name, ()) or name in stores_attr or stores_name.get(name, 0) != 1:
                continue
            if any(isinstance(o, ast.ClassDef) and o is not c and any(isinstance(s_, (ast.Assign, ast.AnnAssign, ast.FunctionDef)) and name in ast.unparse(s_).split("=")[0].split("(")[0].split() for s_ in o.body) for o in tree.body):
                continue                                    # another class has an attribute of that name
            hit = 0
            class R(ast.NodeTransformer):
                def visit_Attribute(self, node):
                    nonlocal hit
                    self.generic_visit(node)
                    if node.attr == name and isinstance(node.ctx, ast.Load) and isinstance(node.value, ast.Name) and node.value.id in ("self", "cls", c.name):
                        hit += 1
                        return copy.deepcopy(val)
                    return node
            for fn in [x for x in c.body if isinstance(x, ast.FunctionDef)]:
                R().visit(fn)
            left = sum(1 for n in ast.walk(tree) if isinstance(n, ast.Attribute) and n.attr == name) + sum(1 for n in ast.walk(c) if isinstance(n, ast.Name) and n.id == name and isinstance(n.ctx, ast.Load))
            if hit and not left:
                c.body[:] = [x for x in c.body if x is not st] or [ast.Pass()]
            if hit:
                done.append(f"{c.name}.{name}")
    # module level
    for name, (st, val) in level_consts(tree).items():
        if name in ref_mod or stores_name.get(name, 0) != 1 or name in stores_attr:
            continue
        shadow = any(isinstance(n, ast.arg) and n.arg == name for n in ast.walk(tree))
        if shadow:
            continue
        hit = 0
        class M(ast.NodeTransformer):
            def visit_Name(self, node):
                nonlocal hit
                if node.id == name and isinstance(node.ctx, ast.Load):
                    hit += 1
                    return copy.deepcopy(val)
                return node
        for other in tree.body:
            if other is not st:
                M().visit(other)
        if hit:
            tree.body[:] = [x for x in tree.body if x is not st]
            done.append(name)
    return done
