"""E5 emission-path enumerator.

Symbolically walks a code-generating function's structured control flow, forking on the boolean atoms of
branch conditions, and collects, per path, the sequence of C lines it emits through `Outputter.add`, with
interpolations kept as typed holes.  Nothing is executed: the walk interprets the AST over a small abstract
domain (symbolic strings, opaque symbols, constants, boolean aliases).
"""
import ast, copy, itertools
from .core import AnalysisError
from .srcmodel import strip_doc, is_flag_test

MAX_PATHS = 20000
ENUM_MEMBERS = {}


# ---------------------------------------------------------------------------------------------
# values
class Hole:
    __slots__ = ("src",)

    def __init__(self, src):
        self.src = src

    def __repr__(self):
        return "[[" + self.src + "]]"


class SStr:
    def __init__(self, parts=None):
        self.parts = parts or []

    def text(self):
        return "".join(p if isinstance(p, str) else render_hole(p.src) for p in self.parts)

    def holes(self):
        return [p.src for p in self.parts if isinstance(p, Hole)]

    def __add__(self, o):
        return SStr(self.parts + o.parts)

    def __repr__(self):
        return "SStr(" + self.text() + ")"


class SSym:
    def __init__(self, src):
        self.src = src

    def __repr__(self):
        return "SSym(" + self.src + ")"


class SConst:
    def __init__(self, value):
        self.value = value

    def __repr__(self):
        return f"SConst({self.value!r})"


class SAlias:
    """A boolean expression kept symbolically (already substituted), decided lazily under the path valuation."""

    def __init__(self, expr):
        self.expr = expr

    def __repr__(self):
        return "SAlias(" + ast.unparse(self.expr) + ")"


class SOut:
    def __init__(self, sid):
        self.sid = sid


class SCall:
    """Result of a non-inlined generator call (a nested emission)."""

    def __init__(self, callee, args_src, node):
        self.callee = callee
        self.args_src = args_src
        self.node = node

    def __repr__(self):
        return f"SCall({self.callee}({', '.join(self.args_src)}))"


class SStream:
    """`X.value()` of an Outputter: the text of a stream."""

    def __init__(self, sid):
        self.sid = sid


# items in a stream
class Line:
    def __init__(self, s, lineno):
        self.s = s
        self.lineno = lineno

    def text(self):
        return self.s.text()

    def __repr__(self):
        return "L:" + self.text()


class CallBlock:
    def __init__(self, call, lineno):
        self.call = call
        self.lineno = lineno

    def text(self):
        return f"@@CALL {self.call.callee}({', '.join(self.call.args_src)})"

    def __repr__(self):
        return self.text()


class LoopBlock:
    def __init__(self, target, iter_src, bodies, lineno):
        self.target = target
        self.iter_src = iter_src
        self.bodies = bodies   # list of (atoms_delta, items, endkind)
        self.lineno = lineno

    def text(self):
        return f"@@LOOP for {self.target} in {self.iter_src} ({len(self.bodies)} body path(s))"

    def __repr__(self):
        return self.text()


def render_hole(src):
    s = src
    if s.startswith("self.dfa.states.index(") and s.endswith(")"):
        return "[[STATEIDX(" + s[len("self.dfa.states.index("):-1] + ")]]"
    if s == "self.program_name.upper()":
        return "[[PROG]]"
    if s == "self.program_name":
        return "[[prog]]"
    return "[[" + s + "]]"


# ---------------------------------------------------------------------------------------------
class Path:
    def __init__(self):
        self.env = {}
        self.atoms = {}
        self.enums = {}      # expr src -> ("eq", val) | ("ne", frozenset)
        self.streams = {}    # sid -> [items]
        self.end = None
        self.effects = []
        self.classes = {}    # variable name -> concrete class name (chosen)
        self.nsid = [0]

    def fork(self):
        p = Path.__new__(Path)
        p.env = dict(self.env)
        p.atoms = dict(self.atoms)
        p.enums = dict(self.enums)
        p.streams = {k: list(v) for k, v in self.streams.items()}
        p.end = self.end
        p.effects = list(self.effects)
        p.classes = self.classes
        p.nsid = self.nsid
        return p

    def new_stream(self):
        self.nsid[0] += 1
        sid = self.nsid[0]
        self.streams[sid] = []
        return sid

    def valuation(self):
        v = dict(self.atoms)
        for k, (kind, val) in self.enums.items():
            if kind == "eq":
                v[f"{k} == {val}"] = True
                cls = val.split(".")[0]
                for m in ENUM_MEMBERS.get(cls, ()):
                    if f"{cls}.{m}" != val:
                        v[f"{k} == {cls}.{m}"] = False
            else:
                for x in val:
                    v[f"{k} == {x}"] = False
        return v

    def holds(self, atom):
        return self.atoms.get(atom)


class FunctionPaths:
    """Result of enumerating one function."""

    def __init__(self, qualname, paths, main_sid_of):
        self.qualname = qualname
        self.paths = paths
        self._main = main_sid_of

    def lines(self, path):
        """Flat list of items of the stream whose text the function returns (or the single stream)."""
        sid = self._main(path)
        if sid is None:
            return []
        return path.streams.get(sid, [])


class Emitter:
    NO_INLINE = {"_integer_containing", "_get_maxval_hint_for_raw_type", "_escape_string", "_generate_condition",
                 "_generate_code_for_int_expr", "_generate_condition_for_transition"}

    def __init__(self, model):
        self.model = model
        self._inlinable_cache = {}
        self.enum_classes = {}
        for cname, ci in model.classes.items():
            if any(b in ("enum.Enum", "Enum") or b.endswith("Enum") for b in ci.bases):
                self.enum_classes[cname] = [n for n, _ in model.enum_members(cname)]
                ENUM_MEMBERS[cname] = self.enum_classes[cname]
        # unique method owners for value inlining of non-self calls
        self._owners = {}
        for cname, ci in model.classes.items():
            for m in ci.methods:
                self._owners.setdefault(m, []).append(cname)
        self.paths_total = 0
        self._cache = {}

    # -- public --------------------------------------------------------------------------------
    def enumerate(self, qualname, bind=None, classes=None, atoms=None, self_class=None):
        """All emission paths of function `qualname`.
        bind: param name -> python constant (bound as SConst) ; classes: param -> concrete class name;
        atoms: initial valuation."""
        ckey = (qualname, repr(sorted((bind or {}).items())), repr(sorted((classes or {}).items())), repr(sorted((atoms or {}).items())), self_class)
        if ckey in self._cache:
            return self._cache[ckey]
        fn = self.model.func(qualname)
        p = Path()
        p.classes = dict(classes or {})
        for a in fn.args.args + fn.args.kwonlyargs:
            p.env[a.arg] = SSym(a.arg)
        # defaults
        defaults = fn.args.defaults
        if defaults:
            for a, d in zip(fn.args.args[-len(defaults):], defaults):
                if isinstance(d, ast.Constant):
                    p.env[a.arg] = SSym(a.arg)  # parameters stay symbolic unless bound explicitly
        for k, v in (bind or {}).items():
            p.env[k] = SConst(v)
        if atoms:
            p.atoms.update(atoms)
        self.self_class = self_class or (qualname.split(".")[0] if "." in qualname else None)
        self._fn_stack = [qualname]
        paths = self._exec_block(strip_doc(fn.body), p)
        self.paths_total += len(paths)

        def main_sid(path):
            if path.end and path.end[0] == "return" and isinstance(path.end[1], SStream):
                return path.end[1].sid
            if len(path.streams) == 1:
                return next(iter(path.streams))
            return None
        res = FunctionPaths(qualname, paths, main_sid)
        self._cache[ckey] = res
        return res

    # -- canonicalisation ----------------------------------------------------------------------
    def canon_node(self, expr, path):
        env = path.env

        class Sub(ast.NodeTransformer):
            def __init__(s):
                s.bound = set()

            def visit_GeneratorExp(s, node):
                return s._comp(node)

            visit_ListComp = visit_SetComp = visit_DictComp = visit_GeneratorExp

            def _comp(s, node):
                names = set()
                for g in node.generators:
                    for n in ast.walk(g.target):
                        if isinstance(n, ast.Name):
                            names.add(n.id)
                old = s.bound
                s.bound = old | names
                node = s.generic_visit(node)
                s.bound = old
                return node

            def visit_Lambda(s, node):
                return node

            def visit_Name(s, node):
                if node.id in s.bound:
                    return node
                v = env.get(node.id)
                if isinstance(v, SSym) and v.src != node.id:
                    try:
                        return ast.parse(v.src, mode="eval").body
                    except SyntaxError:
                        return node
                if isinstance(v, SConst) and isinstance(v.value, (bool, int, str, type(None))):
                    return ast.Constant(v.value)
                if isinstance(v, SAlias):
                    return copy.deepcopy(v.expr)
                return node
        return ast.fix_missing_locations(Sub().visit(copy.deepcopy(expr)))

    def canon(self, expr, path):
        return ast.unparse(self.canon_node(expr, path))

    # -- deciding conditions -------------------------------------------------------------------
    def decide(self, expr, path):
        """-> list of (bool, path); forks on unknown atoms, short-circuit aware."""
        if isinstance(expr, ast.BoolOp):
            is_and = isinstance(expr.op, ast.And)
            results = [(is_and, path)]
            for v in expr.values:
                new = []
                for b, p in results:
                    if b != is_and:
                        new.append((b, p))
                    else:
                        new.extend(self.decide(v, p))
                results = new
            return results
        if isinstance(expr, ast.UnaryOp) and isinstance(expr.op, ast.Not):
            return [(not b, p) for b, p in self.decide(expr.operand, path)]
        if isinstance(expr, ast.Constant):
            return [(bool(expr.value), path)]
        if isinstance(expr, ast.Name):
            v = path.env.get(expr.id)
            if isinstance(v, SConst):
                return [(bool(v.value), path)]
            if isinstance(v, SAlias):
                return self.decide(v.expr, path)
            if isinstance(v, SStr):
                if all(isinstance(x, str) for x in v.parts):
                    return [(bool(v.text()), path)]
            if isinstance(v, SSym):
                return self._atom(v.src, path)
            return self._atom(expr.id, path)
        if isinstance(expr, ast.IfExp):
            out = []
            for b, p in self.decide(expr.test, path):
                out.extend(self.decide(expr.body if b else expr.orelse, p))
            return out
        flag = is_flag_test(expr)
        if flag:
            return self._atom("F:" + flag, path)
        if isinstance(expr, ast.Call):
            # isinstance on a variable with a chosen class
            if isinstance(expr.func, ast.Name) and expr.func.id == "isinstance" and len(expr.args) == 2:
                subj = expr.args[0]
                if isinstance(subj, ast.Name) and subj.id in path.classes:
                    cl = path.classes[subj.id]
                    targets = expr.args[1].elts if isinstance(expr.args[1], ast.Tuple) else [expr.args[1]]
                    names = [t.id for t in targets if isinstance(t, ast.Name)]
                    return [(any(self.model.is_subclass(cl, t) for t in names), path)]
            inl = self._try_inline_call(expr, path)
            if inl is not None:
                out = []
                for val, p in inl:
                    out.extend(self._decide_value(val, p, expr))
                return out
        if isinstance(expr, ast.Compare) and len(expr.ops) == 1:
            r = self._decide_compare(expr, path)
            if r is not None:
                return r
        return self._atom(self.canon(expr, path), path)

    def _decide_value(self, val, path, origin_expr):
        if isinstance(val, SConst):
            return [(bool(val.value), path)]
        if isinstance(val, SAlias):
            return self.decide(val.expr, path)
        if isinstance(val, SSym):
            return self._atom(val.src, path)
        if isinstance(val, SStr) and all(isinstance(x, str) for x in val.parts):
            return [(bool(val.text()), path)]
        return self._atom(self.canon(origin_expr, path), path)

    def _atom(self, name, path):
        if name in path.atoms:
            return [(path.atoms[name], path)]
        if name in ("True", "False"):
            return [(name == "True", path)]
        t, f = path.fork(), path.fork()
        t.atoms[name] = True
        f.atoms[name] = False
        return [(True, t), (False, f)]

    def _enum_const(self, node, path):
        """'Class.MEMBER' if node (after substitution) denotes a member of a known enum class."""
        n = self.canon_node(node, path)
        if isinstance(n, ast.Attribute) and isinstance(n.value, ast.Name) and n.value.id in self.enum_classes \
                and n.attr in self.enum_classes[n.value.id]:
            return n.value.id, n.attr
        return None

    def _decide_compare(self, expr, path):
        op = expr.ops[0]
        left, right = expr.left, expr.comparators[0]
        # None tests
        if isinstance(op, (ast.Is, ast.IsNot)) and isinstance(right, ast.Constant) and right.value is None:
            lv = path.env.get(left.id) if isinstance(left, ast.Name) else None
            if isinstance(lv, SConst):
                r = lv.value is None
                return [(r if isinstance(op, ast.Is) else not r, path)]
            res = self._atom(self.canon(left, path) + " is None", path)
            if isinstance(op, ast.IsNot):
                res = [(not b, p) for b, p in res]
            return res
        if isinstance(op, (ast.Eq, ast.NotEq)):
            ec = self._enum_const(right, path)
            subj = left
            if ec is None:
                ec = self._enum_const(left, path)
                subj = right
            if ec is not None and self._enum_const(subj, path) is None:
                res = self._decide_enum_eq(self.canon(subj, path), ec, path)
                if isinstance(op, ast.NotEq):
                    res = [(not b, p) for b, p in res]
                return res
            # constant comparisons
            lv, rv = self._const_of(left, path), self._const_of(right, path)
            if lv is not None and rv is not None:
                r = lv[0] == rv[0]
                return [(r if isinstance(op, ast.Eq) else not r, path)]
        if isinstance(op, (ast.In, ast.NotIn)) and isinstance(right, (ast.List, ast.Tuple, ast.Set)) and right.elts:
            ecs = [self._enum_const(e, path) for e in right.elts]
            if all(e is not None for e in ecs):
                subj = self.canon(left, path)
                results = [(False, path)]
                for ec in ecs:
                    new = []
                    for b, p in results:
                        if b:
                            new.append((b, p))
                        else:
                            new.extend(self._decide_enum_eq(subj, ec, p))
                    results = new
                if isinstance(op, ast.NotIn):
                    results = [(not b, p) for b, p in results]
                return results
        return None

    def _const_of(self, node, path):
        if isinstance(node, ast.Constant):
            return (node.value,)
        if isinstance(node, ast.Name):
            v = path.env.get(node.id)
            if isinstance(v, SConst):
                return (v.value,)
        return None

    def _decide_enum_eq(self, subj, ec, path):
        cls, mem = ec
        val = f"{cls}.{mem}"
        cur = path.enums.get(subj)
        if cur:
            if cur[0] == "eq":
                return [(cur[1] == val, path)]
            if val in cur[1]:
                return [(False, path)]
        members = [f"{cls}.{m}" for m in self.enum_classes[cls]]
        ne = set(cur[1]) if cur else set()
        t, f = path.fork(), path.fork()
        t.enums[subj] = ("eq", val)
        ne2 = frozenset(ne | {val})
        rest = [m for m in members if m not in ne2]
        if len(rest) == 1:
            f.enums[subj] = ("eq", rest[0])
        else:
            f.enums[subj] = ("ne", ne2)
        return [(True, t), (False, f)]

    # -- inlining small helpers ------------------------------------------------------------------
    def _resolve_callee(self, call, path):
        """-> (qualname, FunctionDef, self_src) for calls we may inline, else None."""
        f = call.func
        if not isinstance(f, ast.Attribute):
            return None
        recv = f.value
        if isinstance(recv, ast.Name) and recv.id == "self" and self.self_class and isinstance(path.env.get("self"), SSym) \
                and path.env["self"].src == "self":
            owner, fn = self.model.resolve_method(self.self_class, f.attr)
            if fn is not None:
                return f"{owner}.{f.attr}", fn, "self"
            return None
        owners = self._owners.get(f.attr, [])
        if len(owners) == 1 and owners[0] not in ("ProgramData", "Outputter"):
            fn = self.model.classes[owners[0]].methods[f.attr]
            return f"{owners[0]}.{f.attr}", fn, self.canon(recv, path)
        return None

    def _is_inlinable(self, qualname, fn):
        if qualname in self._inlinable_cache:
            return self._inlinable_cache[qualname]
        ok = fn.name not in self.NO_INLINE
        if ok:
            n = 0
            for node in ast.walk(fn):
                if isinstance(node, (ast.For, ast.While, ast.With, ast.Try, ast.Yield, ast.YieldFrom)):
                    ok = False
                    break
                if isinstance(node, ast.Call) and isinstance(node.func, ast.Name) and node.func.id == "Outputter":
                    ok = False   # a generator of its own: analysed separately, composed by the rules
                    break
                if isinstance(node, ast.stmt):
                    n += 1
            if n > 30:
                ok = False
        if ok:
            # must end in return on the main line
            body = strip_doc(fn.body)
            if not body:
                ok = False
        if ok:
            for d in fn.decorator_list:
                if "classmethod" in ast.unparse(d) or "staticmethod" in ast.unparse(d):
                    ok = False
        self._inlinable_cache[qualname] = ok
        return ok

    def _try_inline_call(self, call, path):
        rc = self._resolve_callee(call, path)
        if rc is None:
            return None
        qualname, fn, self_src = rc
        if not self._is_inlinable(qualname, fn) or qualname in self._fn_stack or len(self._fn_stack) > 6:
            return None
        # bind arguments
        params = [a.arg for a in fn.args.args]
        if not params or params[0] not in ("self", "cls"):
            return None
        argvals_list = [([], path)]
        for a in call.args:
            if isinstance(a, ast.Starred):
                return None
            new = []
            for vals, p in argvals_list:
                for v, p2 in self.ev(a, p):
                    new.append((vals + [v], p2))
            argvals_list = new
        out = []
        for vals, p in argvals_list:
            kw = {}
            p_cur = [(kw, p)]
            for k in call.keywords:
                if k.arg is None:
                    return None
                new = []
                for kwd, pp in p_cur:
                    for v, p2 in self.ev(k.value, pp):
                        d2 = dict(kwd)
                        d2[k.arg] = v
                        new.append((d2, p2))
                p_cur = new
            for kwd, pp in p_cur:
                saved_env = pp.env
                env = {params[0]: SSym(self_src)}
                defaults = fn.args.defaults
                dmap = {}
                if defaults:
                    for a, d in zip(fn.args.args[-len(defaults):], defaults):
                        dmap[a.arg] = d
                for i, name in enumerate(params[1:]):
                    if i < len(vals):
                        env[name] = vals[i]
                    elif name in kwd:
                        env[name] = kwd[name]
                    elif name in dmap:
                        d = dmap[name]
                        env[name] = SConst(d.value) if isinstance(d, ast.Constant) else SSym(ast.unparse(d))
                    else:
                        return None
                saved_self_class = self.self_class
                callee_cls = qualname.split(".")[0]
                q = pp.fork()
                q.env = env
                q.end = None
                self._fn_stack.append(qualname)
                if self_src != "self":
                    self.self_class = callee_cls
                try:
                    results = self._exec_block(strip_doc(fn.body), q)
                finally:
                    self._fn_stack.pop()
                    self.self_class = saved_self_class
                for r in results:
                    if r.end and r.end[0] == "return":
                        val = r.end[1]
                        r.env = dict(saved_env)
                        r.end = None
                        out.append((val, r))
                    elif r.end and r.end[0] == "raise":
                        r.env = dict(saved_env)
                        out.append((SSym("<raises " + str(r.end[1]) + ">"), r))
                        # keep path terminated by raise
                    else:
                        r.env = dict(saved_env)
                        r.end = None
                        out.append((SConst(None), r))
        return out

    # -- expression evaluation -------------------------------------------------------------------
    def ev(self, expr, path):
        """-> list of (value, path)"""
        if isinstance(expr, ast.Constant):
            if isinstance(expr.value, str):
                return [(SStr([expr.value]), path)]
            return [(SConst(expr.value), path)]
        if isinstance(expr, ast.JoinedStr):
            results = [(SStr([]), path)]
            for part in expr.values:
                new = []
                for acc, p in results:
                    if isinstance(part, ast.Constant):
                        new.append((acc + SStr([str(part.value)]), p))
                    else:
                        for v, p2 in self.ev(part.value, p):
                            suffix = ""
                            if part.conversion == 114:
                                suffix = "!r"
                            if part.format_spec is not None:
                                suffix += ":" + ast.unparse(part.format_spec)
                            new.append((acc + self._to_sstr(v, part.value, p2, suffix), p2))
                results = new
            return results
        if isinstance(expr, ast.Name):
            v = path.env.get(expr.id)
            if v is None:
                return [(SSym(expr.id), path)]
            return [(v, path)]
        if isinstance(expr, ast.IfExp):
            out = []
            for b, p in self.decide(expr.test, path):
                out.extend(self.ev(expr.body if b else expr.orelse, p))
            return out
        if isinstance(expr, ast.BinOp) and isinstance(expr.op, ast.Add):
            out = []
            for l, p in self.ev(expr.left, path):
                for r, p2 in self.ev(expr.right, p):
                    if isinstance(l, (SStr, SStream, SCall)) or isinstance(r, (SStr, SStream, SCall)):
                        out.append((self._to_sstr(l, expr.left, p2) + self._to_sstr(r, expr.right, p2), p2))
                    elif isinstance(l, SConst) and isinstance(r, SConst) and isinstance(l.value, (int, str)) and type(l.value) == type(r.value):
                        out.append((SConst(l.value + r.value), p2))
                    else:
                        out.append((SSym(self.canon(expr, p2)), p2))
            return out
        if isinstance(expr, (ast.BoolOp, ast.Compare)) or (isinstance(expr, ast.UnaryOp) and isinstance(expr.op, ast.Not)):
            return [(SAlias(self.canon_node(expr, path)), path)]
        if isinstance(expr, ast.Subscript) and isinstance(expr.value, ast.Dict):
            r = self._ev_dict_subscript(expr, path)
            if r is not None:
                return r
        if isinstance(expr, ast.Call):
            return self._ev_call(expr, path)
        return [(SSym(self.canon(expr, path)), path)]

    def _ev_dict_subscript(self, expr, path):
        d = expr.value
        keys = [self._enum_const(k, path) if k is not None else None for k in d.keys]
        if not keys or any(k is None for k in keys):
            return None
        subj = self.canon(expr.slice, path)
        out = []
        remaining = [(False, path)]
        for ec, vnode in zip(keys, d.values):
            new = []
            for b, p in remaining:
                for b2, p2 in self._decide_enum_eq(subj, ec, p):
                    if b2:
                        out.extend(self.ev(vnode, p2))
                    else:
                        new.append((False, p2))
            remaining = new
        for _, p in remaining:
            p.end = ("raise", "KeyError")
            out.append((SSym("<KeyError>"), p))
        return out

    def _to_sstr(self, v, node, path, suffix=""):
        if isinstance(v, SStr):
            return v
        if isinstance(v, SConst):
            return SStr([str(v.value)])
        if isinstance(v, SCall):
            return SStr([Hole("CALL:" + v.callee + "(" + ", ".join(v.args_src) + ")" + suffix)])
        if isinstance(v, SSym):
            return SStr([Hole(v.src + suffix)])
        if isinstance(v, SStream):
            return SStr([Hole(f"STREAM:{v.sid}")])
        if isinstance(v, SAlias):
            return SStr([Hole(ast.unparse(v.expr) + suffix)])
        return SStr([Hole(self.canon(node, path) + suffix)])

    def _ev_call(self, call, path):
        f = call.func
        if isinstance(f, ast.Name):
            if f.id == "Outputter":
                sid = path.new_stream()
                return [(SOut(sid), path)]
            if f.id == "str" and len(call.args) == 1:
                out = []
                for v, p in self.ev(call.args[0], path):
                    out.append((self._to_sstr(v, call.args[0], p), p))
                return out
            if f.id in ("any", "all", "isinstance"):
                return [(SAlias(self.canon_node(call, path)), path)]
        if is_flag_test(call):
            return [(SAlias(self.canon_node(call, path)), path)]
        if isinstance(f, ast.Attribute):
            recv = f.value
            if isinstance(recv, ast.Name):
                rv = path.env.get(recv.id)
                if isinstance(rv, SOut) and f.attr == "value":
                    return [(SStream(rv.sid), path)]
            if f.attr == "format" and isinstance(recv, ast.Constant) and isinstance(recv.value, str):
                # "..{}..".format(a, b)
                pieces = recv.value.split("{}")
                if len(pieces) == len(call.args) + 1 and "{" not in "".join(pieces):
                    results = [(SStr([pieces[0]]), path)]
                    for a, tail in zip(call.args, pieces[1:]):
                        new = []
                        for acc, p in results:
                            for v, p2 in self.ev(a, p):
                                new.append((acc + self._to_sstr(v, a, p2) + SStr([tail]), p2))
                        results = new
                    return results
            inl = self._try_inline_call(call, path)
            if inl is not None:
                return inl
            if isinstance(recv, ast.Name) and recv.id == "self" and (f.attr.startswith("_generate") or f.attr.startswith("generate")):
                args_src = [self.canon(a, path) for a in call.args] + [f"{k.arg}={self.canon(k.value, path)}" for k in call.keywords]
                return [(SCall(f.attr, args_src, call), path)]
        return [(SSym(self.canon(call, path)), path)]

    # -- statements ------------------------------------------------------------------------------
    def _exec_block(self, stmts, path):
        paths = [path]
        for st in stmts:
            new = []
            for p in paths:
                if p.end is not None:
                    new.append(p)
                else:
                    new.extend(self._exec_stmt(st, p))
            paths = new
            if len(paths) > MAX_PATHS:
                raise AnalysisError(f"emission path bound exceeded in {self._fn_stack[0]}")
        return paths

    def _add_line(self, out, s, lineno, path):
        path.streams.setdefault(out.sid, []).append(Line(s, lineno))

    def _exec_stmt(self, st, path):
        if isinstance(st, ast.Expr):
            v = st.value
            if isinstance(v, ast.Constant):
                return [path]
            if isinstance(v, ast.Call) and isinstance(v.func, ast.Attribute) and isinstance(v.func.value, ast.Name):
                rv = path.env.get(v.func.value.id)
                if isinstance(rv, SOut) and v.func.attr == "add":
                    results = [(SStr([]), path)]
                    first = True
                    for a in v.args:
                        new = []
                        for acc, p in results:
                            for val, p2 in self.ev(a, p):
                                s = self._to_sstr(val, a, p2)
                                new.append((acc + (SStr([]) if first else SStr([" "])) + s, p2))
                        results = new
                        first = False
                    out = []
                    for acc, p in results:
                        if p.end is None:
                            self._add_line(rv, acc, st.lineno, p)
                        out.append(p)
                    return out
            path.effects.append(self.canon(v, path))
            return [path]
        if isinstance(st, ast.Assign):
            if len(st.targets) == 1 and isinstance(st.targets[0], ast.Name):
                out = []
                for val, p in self.ev(st.value, path):
                    p.env[st.targets[0].id] = val
                    out.append(p)
                return out
            for t in st.targets:
                for n in ast.walk(t):
                    if isinstance(n, ast.Name):
                        path.env[n.id] = SSym(n.id)
            path.effects.append("assign " + self.canon(st.targets[0], path))
            return [path]
        if isinstance(st, ast.AnnAssign):
            if isinstance(st.target, ast.Name) and st.value is not None:
                out = []
                for val, p in self.ev(st.value, path):
                    p.env[st.target.id] = val
                    out.append(p)
                return out
            return [path]
        if isinstance(st, ast.AugAssign):
            if isinstance(st.target, ast.Name):
                cur = path.env.get(st.target.id)
                if isinstance(cur, SOut) and isinstance(st.op, ast.Add):
                    out = []
                    for val, p in self.ev(st.value, path):
                        if p.end is not None:
                            out.append(p)
                            continue
                        if isinstance(val, SCall):
                            p.streams.setdefault(cur.sid, []).append(CallBlock(val, st.lineno))
                        else:
                            p.streams.setdefault(cur.sid, []).append(Line(self._to_sstr(val, st.value, p), st.lineno))
                        out.append(p)
                    return out
                if isinstance(cur, SStr) and isinstance(st.op, ast.Add):
                    out = []
                    for val, p in self.ev(st.value, path):
                        p.env[st.target.id] = cur + self._to_sstr(val, st.value, p)
                        out.append(p)
                    return out
                path.env[st.target.id] = SSym(st.target.id + "'")
            return [path]
        if isinstance(st, ast.If):
            out = []
            for b, p in self.decide(st.test, path):
                out.extend(self._exec_block(st.body if b else st.orelse, p))
            return out
        if isinstance(st, ast.With):
            for item in st.items:
                ctxv = None
                if isinstance(item.context_expr, ast.Name):
                    ctxv = path.env.get(item.context_expr.id)
                if isinstance(ctxv, SOut) and isinstance(item.optional_vars, ast.Name):
                    path.env[item.optional_vars.id] = SOut(ctxv.sid)
                elif isinstance(item.optional_vars, ast.Name):
                    path.env[item.optional_vars.id] = SSym(item.optional_vars.id)
            return self._exec_block(st.body, path)
        if isinstance(st, (ast.For, ast.While)):
            return self._exec_loop(st, path)
        if isinstance(st, ast.Try):
            return self._exec_try(st, path)
        if isinstance(st, ast.Return):
            if st.value is None:
                path.end = ("return", SConst(None))
                return [path]
            out = []
            for val, p in self.ev(st.value, path):
                if p.end is None:
                    p.end = ("return", val)
                out.append(p)
            return out
        if isinstance(st, ast.Raise):
            cls = None
            if st.exc is not None:
                e = st.exc.func if isinstance(st.exc, ast.Call) else st.exc
                cls = ast.unparse(e)
            path.end = ("raise", cls)
            path.raise_src = ast.unparse(st)
            return [path]
        if isinstance(st, ast.Assert):
            out = []
            for b, p in self.decide(st.test, path):
                if b:
                    out.append(p)
                else:
                    p.end = ("raise", "AssertionError")
                    out.append(p)
            return out
        if isinstance(st, ast.Continue):
            path.end = ("continue", None)
            return [path]
        if isinstance(st, ast.Break):
            path.end = ("break", None)
            return [path]
        if isinstance(st, (ast.Pass, ast.Import, ast.ImportFrom, ast.Global, ast.Nonlocal)):
            return [path]
        if isinstance(st, (ast.FunctionDef, ast.ClassDef)):
            path.env[st.name] = SSym(st.name)
            return [path]
        if isinstance(st, ast.Delete):
            return [path]
        raise AnalysisError(f"emission walk: unsupported statement {type(st).__name__} at line {st.lineno}")

    def _assigned_names(self, stmts):
        names = set()
        for s in stmts:
            for n in ast.walk(s):
                if isinstance(n, (ast.Assign, ast.AugAssign, ast.AnnAssign)):
                    tgts = n.targets if isinstance(n, ast.Assign) else [n.target]
                    for t in tgts:
                        for x in ast.walk(t):
                            if isinstance(x, ast.Name):
                                names.add(x.id)
                if isinstance(n, (ast.For,)):
                    for x in ast.walk(n.target):
                        if isinstance(x, ast.Name):
                            names.add(x.id)
        return names

    def _exec_loop(self, st, path):
        carried = self._assigned_names(st.body)
        body_entry = path.fork()
        # per-iteration variables
        if isinstance(st, ast.For):
            for x in ast.walk(st.target):
                if isinstance(x, ast.Name):
                    body_entry.env[x.id] = SSym(x.id)
            iter_src = self.canon(st.iter, path)
            target_src = ast.unparse(st.target)
        else:
            iter_src = "while " + self.canon(st.test, path)
            target_src = ""
        for n in carried:
            cur = path.env.get(n)
            if isinstance(cur, SOut):
                continue
            if n in path.env and not (isinstance(st, ast.For) and n in [x.id for x in ast.walk(st.target) if isinstance(x, ast.Name)]):
                body_entry.env[n] = SSym(n + "@loop")
        # capture what the body emits: give every existing stream an empty buffer
        base_streams = {sid: len(items) for sid, items in body_entry.streams.items()}
        entry_atoms = dict(body_entry.atoms)
        entry_enums = dict(body_entry.enums)
        body_paths = self._exec_block(st.body, body_entry)
        touched = {}
        for bp in body_paths:
            for sid, items in bp.streams.items():
                new_items = items[base_streams.get(sid, 0):]
                if new_items:
                    touched.setdefault(sid, [])
        for bp in body_paths:
            delta = {k: v for k, v in bp.atoms.items() if entry_atoms.get(k) != v}
            for k, v in bp.enums.items():
                if entry_enums.get(k) != v and v[0] == "eq":
                    delta[f"{k} == {v[1]}"] = True
                    cls = v[1].split(".")[0]
                    for m in ENUM_MEMBERS.get(cls, ()):
                        if f"{cls}.{m}" != v[1]:
                            delta[f"{k} == {cls}.{m}"] = False
                elif entry_enums.get(k) != v:
                    for x in v[1]:
                        delta[f"{k} == {x}"] = False
            endkind = bp.end[0] if bp.end else "next"
            for sid in touched:
                new_items = bp.streams.get(sid, [])[base_streams.get(sid, 0):]
                touched[sid].append((delta, new_items, endkind, bp.end))
        for sid, bodies in touched.items():
            path.streams.setdefault(sid, []).append(LoopBlock(target_src, iter_src, bodies, st.lineno))
        if not touched:
            path.effects.append(f"loop over {iter_src}")
            # a loop whose body can raise / return still matters to refusal rules
            for bp in body_paths:
                if bp.end and bp.end[0] in ("raise", "return"):
                    path.effects.append(f"loop body may {bp.end[0]} {bp.end[1]}")
        for n in carried:
            cur = path.env.get(n)
            if isinstance(cur, SOut):
                continue
            path.env[n] = SSym(n + "@afterloop")
        # a stream created inside the loop body is not visible outside
        if st.orelse:
            return self._exec_block(st.orelse, path)
        return [path]

    def _exec_try(self, st, path):
        # atom: the protected body completes normally
        body_src = " ; ".join(ast.unparse(s) for s in st.body)
        atom = None
        handlers = st.handlers
        # recognise `<list>.index(X)` under `except ValueError` -> atom "X in <list>"
        for n in ast.walk(ast.Module(body=st.body, type_ignores=[])):
            if isinstance(n, ast.Call) and isinstance(n.func, ast.Attribute) and n.func.attr == "index" and len(n.args) == 1 \
                    and any(h.type is not None and "ValueError" in ast.unparse(h.type) for h in handlers):
                atom = f"{self.canon(n.args[0], path)} in {self.canon(n.func.value, path)}"
                break
            if isinstance(n, ast.Call) and isinstance(n.func, ast.Name) and n.func.id == "next" \
                    and any(h.type is not None and "StopIteration" in ast.unparse(h.type) for h in handlers):
                atom = f"nonempty({self.canon(n.args[0], path)})"
                break
        if atom is None:
            atom = f"try-ok({body_src[:60]})"
        out = []
        for ok, p in self._atom(atom, path):
            if ok:
                res = self._exec_block(st.body, p)
                if st.orelse:
                    res2 = []
                    for r in res:
                        res2.extend(self._exec_block(st.orelse, r) if r.end is None else [r])
                    res = res2
                out.extend(res)
            else:
                if not handlers:
                    out.append(p)
                    continue
                h = handlers[0]
                if h.name:
                    p.env[h.name] = SSym(h.name)
                out.extend(self._exec_block(h.body, p))
        if st.finalbody:
            res = []
            for p in out:
                if p.end is None:
                    res.extend(self._exec_block(st.finalbody, p))
                else:
                    res.append(p)
            out = res
        return out
