"""Recognisers for refusal guards: `if <condition>: ... raise <NMFUError subclass>` with no repair before the raise."""
import ast, re
from .core import AnalysisError
from .srcmodel import walk_no_nested, raised_class


def norm_test(node):
    return ast.unparse(node)


def find_ifs(fn, rx, nested=True):
    """If/elif nodes of `fn` whose test source matches regex `rx`."""
    c = re.compile(rx)
    it = ast.walk(fn) if nested else walk_no_nested(fn)
    return [n for n in it if isinstance(n, ast.If) and c.search(ast.unparse(n.test))]


def arm_refuses(model, body):
    """-> (ok, why): every path through `body` ends in `raise <NMFUError subclass>`; no continue/break/return on the way."""
    if not body:
        return False, "empty arm"
    for st in body[:-1]:
        for n in ast.walk(st):
            if isinstance(n, (ast.Continue, ast.Break, ast.Return)):
                return False, f"arm leaves through `{ast.unparse(n)}` before raising"
    last = body[-1]
    if isinstance(last, ast.Raise):
        cls = raised_class(last)
        if cls and model.is_subclass(cls, "NMFUError"):
            return True, cls
        return False, f"raises {cls}, not a diagnosed NMFUError"
    if isinstance(last, ast.If) and last.orelse:
        a, wa = arm_refuses(model, last.body)
        b, wb = arm_refuses(model, last.orelse)
        return (a and b), (wa if not a else wb)
    return False, f"arm ends in `{ast.unparse(last)[:60]}`, not a raise: the conflict is tolerated or resolved silently"


def under_debug_flag(model, node, fn):
    """Is `node` nested under a test of a VERBOSE_/DEBUG_ flag or a dump option?"""
    n = node
    while n in model.parents and n is not fn:
        n = model.parents[n]
        if isinstance(n, ast.If):
            t = ast.unparse(n.test)
            if re.search(r"ProgramFlag\.(VERBOSE|DEBUG)_|ProgramData\.dump\(", t):
                return True
    return False


def enclosing_conditions(model, node, stop):
    """Sources of the tests of all If/While nodes enclosing `node` up to (not including) `stop`, innermost first, with branch polarity."""
    out = []
    n = node
    child = node
    while n in model.parents and n is not stop:
        child = n
        n = model.parents[n]
        if isinstance(n, ast.If):
            pol = any(child is x or _contains(x, child) for x in n.body)
            out.append((ast.unparse(n.test), pol))
    return out


def _contains(root, node):
    return any(x is node for x in ast.walk(root))


def check_refusal(rep, model, rule, fnq, rx, what, message, floor=1, exact=None):
    """Find refusal guard(s) in function `fnq` whose condition matches `rx`; each must raise an NMFUError subclass with no repair first and
    not sit under a debug flag. `exact`: optional predicate on the test source deciding that the condition is the documented one."""
    fn = model.func(fnq)
    ifs = find_ifs(fn, rx)
    if len(ifs) < floor:
        rep.bad(rule, fnq, what, f"refusal guard not found (pattern {rx!r}): {message}")
        return []
    for g in ifs:
        ok, why = arm_refuses(model, g.body)
        dbg = under_debug_flag(model, g, fn)
        t = ast.unparse(g.test)
        good = ok and not dbg and (exact is None or exact(t))
        detail = why if not ok else ("guard sits under a debug flag" if dbg else f"condition is now `{t}`")
        rep.check(good, rule, fnq, what, f"{message} ({detail})", line=g.lineno)
    return ifs
