"""Shared template analyses built on E5/E6: the transition-body path set with atom roles, action templates,
and helpers used by several property rules (C02, C04, C06, C10, C11, C12, C17)."""
import ast, re
from .core import AnalysisError
from .cevents import events_of, Ev
from .emit import Line, CallBlock, LoopBlock

# atom roles of CodegenCtx._generate_transition_body, recognised by the resolved construct they mention
ROLE_PATTERNS = [
    ("INSTATES", re.compile(r"^transition\.target in self\.dfa\.states$")),
    ("EARLY", re.compile(r"may_return_early\(\)")),
    ("FROM_END", re.compile(r"^from_end$")),
    ("FALL", re.compile(r"^transition\.is_fallthrough$")),
    ("ACCEPT", re.compile(r"^transition\.target in self\.dfa\.accepting_states$")),
    ("STRICT", re.compile(r"^F:STRICT_DONE_TOKEN_GENERATION$")),
    ("ALLERR", re.compile(r"^all\(\(?\w+\.error_handling for \w+ in transition\.target\.transitions\)?\)$")),
    ("NOOVERRIDE", re.compile(r"^all\(\(?\w+\.get_target_override_mode\(\) == ActionOverrideMode\.NONE for \w+ in transition\.actions\)?\)$")),
    ("INDIRECT", re.compile(r"^F:INDIRECT_START_PTR$")),
    ("MAYSKIP", re.compile(r"ACTION_MAY_SKIP")),
    # set in the action loop: an emitted action may (or always does) send the machine to another state, so the skip label is a live join
    # (meaning re-derived on every run by tbrows.check_leaves_flag; the enumerator reports a loop-assigned flag as `<name>@afterloop`)
    ("LEAVES", re.compile(r"^leaves_for_elsewhere(@afterloop)?$")),
]


def role_of(atom):
    for r, rx in ROLE_PATTERNS:
        if rx.search(atom):
            return r
    return None


class TBPath:
    def __init__(self, path, items):
        self.path = path
        self.items = items
        self.roles = {}
        for a, v in path.atoms.items():
            r = role_of(a)
            if r is None:
                r = "?" + a     # an atom the table does not know: kept as a free atom; the row must hold for both its values
            if r in self.roles and self.roles[r] != v:
                raise AnalysisError(f"two atoms map to role {r} with different values")
            self.roles[r] = v
        self.events = [e for e in events_of(items) if e.kind not in ("COMMENT",)]

    def get(self, role):
        return self.roles.get(role)

    def immediate_done(self):
        """3-valued immediate_done = ACCEPT and not STRICT and ALLERR under the path's valuation (None = never evaluated)."""
        a, s, e = self.get("ACCEPT"), self.get("STRICT"), self.get("ALLERR")
        if a is False or s is True or e is False:
            return False
        if a is True and s is False and e is True:
            return True
        return None

    def completions(self):
        """The path's valuation completed over spec atoms the template did not consult (same emitted lines for each):
        a correct template only skips an atom when it cannot matter, so every completion must satisfy its own row."""
        import itertools
        unknown = [r for r in ("FALL", "ACCEPT", "STRICT", "ALLERR", "FROM_END") if r not in self.roles]
        out = []
        for vals in itertools.product((True, False), repeat=len(unknown)):
            t = TBPath.__new__(TBPath)
            t.path, t.items, t.events = self.path, self.items, self.events
            t.roles = dict(self.roles)
            t.roles.update(dict(zip(unknown, vals)))
            out.append(t)
        return out

    def row(self):
        if self.get("FALL") is True:
            return "fallthrough"
        imm = self.immediate_done()
        if imm is True:
            # (F-128) in end(), where an action of the transition may have left for another state, the body must not answer: the caller looks at the state really reached
            if self.get("FROM_END") is True and self.get("LEAVES") is True:
                return "end_nonfall"
            return "immediate_done"
        if imm is None:
            return "unknown"
        if self.get("FROM_END") is True:
            return "end_nonfall"
        if self.get("INSTATES") is True or self.get("LEAVES") is True:
            return "consume"
        if self.get("INSTATES") is False:
            return "terminating"
        return "unknown"

    def valuation_str(self):
        return ", ".join(f"{k}={'T' if v else 'F'}" for k, v in sorted(self.roles.items()))

    def lines(self):
        return [i.text() for i in self.items]


def transition_body_paths(ctx):
    fp = ctx.emit.enumerate("CodegenCtx._generate_transition_body")
    out = []
    for p in fp.paths:
        if p.end is None or p.end[0] != "return":
            raise AnalysisError(f"_generate_transition_body has a path that does not return its text: {p.end}")
        out.append(TBPath(p, fp.lines(p)))
    return out


def action_template_paths(ctx, cls, bind=None):
    """Emission paths of the action template for concrete Action class `cls`."""
    fp = ctx.emit.enumerate("CodegenCtx._generate_action_implementation", classes={"action": cls}, bind=bind)
    return fp


def flatten_items(items, depth=0):
    """All Lines, recursing into loop bodies (each body alternative in order)."""
    for it in items:
        if isinstance(it, LoopBlock):
            yield it
            for _, sub, _, _ in it.bodies:
                yield from flatten_items(sub, depth + 1)
        else:
            yield it


def all_line_texts(fp):
    out = []
    for p in fp.paths:
        for it in flatten_items(fp.lines(p)):
            if isinstance(it, Line):
                out.append((p, it))
    return out


def path_key(path, keep=None):
    v = path.valuation()
    if keep is not None:
        v = {k: b for k, b in v.items() if keep(k)}
    return ", ".join(f"{k}={'T' if b else 'F'}" for k, b in sorted(v.items()))


def iter_lines(fp, with_blocks=False):
    """Yield (path, valuation, item) for every Line (and optionally Call/Loop blocks) a function can emit, the valuation
    being the path's atoms merged with the deltas of the enclosing loop-body alternatives."""
    def rec(items, val):
        for it in items:
            if isinstance(it, LoopBlock):
                if with_blocks:
                    yield val, it
                for delta, sub, endk, end in it.bodies:
                    v2 = dict(val)
                    v2.update(delta)
                    yield from rec(sub, v2)
            elif isinstance(it, Line) or with_blocks:
                yield val, it
    for p in fp.paths:
        for val, it in rec(fp.lines(p), p.valuation()):
            yield p, val, it


def true_flags(val):
    return {k[2:] for k, v in val.items() if k.startswith("F:") and v}


def false_flags(val):
    return {k[2:] for k, v in val.items() if k.startswith("F:") and not v}


def action_contexts(ctx):
    """Feasible (is_start, transition is None) contexts of _generate_action_implementation, from its external call sites."""
    import ast
    from .srcmodel import calls_in
    out = []
    for q, f in ctx.model.functions.items():
        if q == "CodegenCtx._generate_action_implementation":
            continue
        for c in calls_in(f, nested=False):
            if isinstance(c.func, ast.Attribute) and c.func.attr == "_generate_action_implementation":
                is_start = False
                if len(c.args) >= 2:
                    is_start = ast.literal_eval(c.args[1]) if isinstance(c.args[1], ast.Constant) else None
                for k in c.keywords:
                    if k.arg == "is_start":
                        is_start = ast.literal_eval(k.value) if isinstance(k.value, ast.Constant) else None
                has_tr = any(k.arg == "transition" for k in c.keywords) or len(c.args) >= 4
                out.append({"caller": q, "is_start": is_start, "transition_none": not has_tr})
    if not out:
        raise AnalysisError("no external caller of _generate_action_implementation")
    return out


def feasible_action_path(val, contexts):
    """Is a template path's valuation consistent with some external calling context? (recursive calls forward their context)"""
    for c in contexts:
        if c["is_start"] is not None and val.get("is_start") is not None and val["is_start"] != c["is_start"]:
            continue
        if val.get("transition is None") is not None and val["transition is None"] != c["transition_none"]:
            continue
        if c["is_start"] is True and val.get("is_end") is True:
            continue
        return True
    return False
