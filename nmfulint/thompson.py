"""E11 fragment interpreter for the regex -> NFA construction (`RegexMatch._convert_to_nfa`).

Each arm of the construction (one per regex node class) is executed *symbolically*: `RegexNFState()` yields a fresh symbolic state, `X.transition(sym, Y)`
records an edge, a recursive call `self._convert_to_nfa(sub, S)` records an atomic edge labelled with the sub-expression from S to a fresh state (the
callee's returned end state), loops over `r.sub_matches` are unrolled for two sub-expressions. Nothing of nmfu is run: the interpreter walks the AST of the arm
and knows exactly the handful of statement forms the construction uses; any other form is an analysis error (exit 2), never a guess.

The resulting little graph is then checked against what the operator means and against the invariants the construction relies on:
  (L) language: the words over {r, M1, M2} leading from the given start to the returned end are those of the operator
      (class: r; alternation: M1 | M2; sequence: M1 M2; optional: eps | M1; star: M1*), compared up to length 6;
  (C) one claim per state: `RegexNFState.transitions` maps a symbol to ONE target, so a state can be the origin of at most one labelled edge or
      sub-fragment (two branches hung onto the same state overwrite each other's first character class);
  (E) the returned end state has no outgoing edge inside the arm (the caller continues from it: sequence chaining, (C) of the caller);
  (A) every state created is added to the automaton.
"""
import ast, itertools
from .core import AnalysisError

EPS = "eps"


class St:
    n = 0

    def __init__(self, kind):
        St.n += 1
        self.id = St.n
        self.kind = kind      # 'given' | 'fresh' | 'returned'

    def __repr__(self):
        return f"{self.kind[0]}{self.id}"


class Frag:
    def __init__(self):
        self.edges = []        # (src, label, dst)
        self.created = []
        self.added = set()
        self.returned = None
        self.start = St("given")


class ArmInterpreter:
    def __init__(self, fn, param_r, param_start, recursive_name):
        self.fn, self.r, self.start_name, self.rec = fn, param_r, param_start, recursive_name

    def run(self, stmts):
        self.f = Frag()
        self.env = {self.start_name: self.f.start}
        self.subs = ["M1", "M2"]
        for st in stmts:
            if self.stmt(st):
                break
        if self.f.returned is None:
            raise AnalysisError("thompson: an arm of _convert_to_nfa does not return a state")
        return self.f

    # -- statements -------------------------------------------------------------------------------
    def stmt(self, st):
        if isinstance(st, ast.Expr):
            if isinstance(st.value, ast.Constant):
                return False           # docstring-like comment
            self.ev(st.value)
            return False
        if isinstance(st, ast.Assign) and len(st.targets) == 1:
            v = self.ev(st.value)
            t = st.targets[0]
            if isinstance(t, ast.Name):
                self.env[t.id] = v
                return False
            raise AnalysisError(f"thompson: unknown assignment target `{ast.unparse(t)}`")
        if isinstance(st, ast.Return):
            v = self.ev(st.value)
            if not isinstance(v, St):
                raise AnalysisError(f"thompson: `{ast.unparse(st)}` does not return a state")
            self.f.returned = v
            return True
        if isinstance(st, ast.For):
            it = self.ev(st.iter)
            if not isinstance(it, list):
                raise AnalysisError(f"thompson: loop over `{ast.unparse(st.iter)}` not understood")
            for elem in it:
                self.bind(st.target, elem)
                for b in st.body:
                    if self.stmt(b):
                        raise AnalysisError("thompson: return inside a loop")
            return False
        if isinstance(st, ast.Pass):
            return False
        raise AnalysisError(f"thompson: statement form not understood in _convert_to_nfa: `{ast.unparse(st)[:80]}`")

    def bind(self, target, val):
        if isinstance(target, ast.Name):
            self.env[target.id] = val
        elif isinstance(target, ast.Tuple) and isinstance(val, tuple) and len(val) == len(target.elts):
            for t, v in zip(target.elts, val):
                self.bind(t, v)
        else:
            raise AnalysisError(f"thompson: loop target `{ast.unparse(target)}` not understood")

    # -- expressions ------------------------------------------------------------------------------
    def ev(self, e):
        if isinstance(e, ast.Name):
            if e.id == self.r:
                return ("R",)
            if e.id in self.env:
                return self.env[e.id]
            raise AnalysisError(f"thompson: unknown name `{e.id}`")
        if isinstance(e, ast.Attribute):
            src = ast.unparse(e)
            if src == f"{self.r}.sub_matches":
                return list(self.subs)
            if src == f"{self.r}.sub_match":
                return self.subs[0]
            if src == "RegexNFState.Epsilon":
                return EPS
            if e.attr == "transition_dbg_metas":
                return ("META",)
            raise AnalysisError(f"thompson: attribute `{src}` not understood")
        if isinstance(e, ast.Subscript):
            base = self.ev(e.value)
            if base == ("META",):
                return ("META",)
            raise AnalysisError(f"thompson: subscript `{ast.unparse(e)}` not understood")
        if isinstance(e, ast.ListComp) and len(e.generators) == 1 and not e.generators[0].ifs:
            it = self.ev(e.generators[0].iter)
            if not isinstance(it, list):
                raise AnalysisError(f"thompson: comprehension over `{ast.unparse(e.generators[0].iter)}` not understood")
            out = []
            saved = dict(self.env)
            for elem in it:
                self.bind(e.generators[0].target, elem)
                out.append(self.ev(e.elt))
            self.env = saved
            return out
        if isinstance(e, ast.Starred):
            return self.ev(e.value)
        if isinstance(e, ast.Call):
            return self.call(e)
        if isinstance(e, ast.Constant):
            return e.value
        raise AnalysisError(f"thompson: expression form not understood: `{ast.unparse(e)[:80]}`")

    def call(self, e):
        fsrc = ast.unparse(e.func)
        if fsrc == "RegexNFState" and not e.args:
            s = St("fresh")
            self.f.created.append(s)
            return s
        if fsrc == "zip":
            lists = [self.ev(a) for a in e.args]
            if not all(isinstance(x, list) for x in lists):
                raise AnalysisError(f"thompson: `{ast.unparse(e)}` not understood")
            return [tuple(t) for t in zip(*lists)]
        if fsrc in ("list", "tuple", "iter", "reversed") and len(e.args) == 1:
            v = self.ev(e.args[0])
            return list(reversed(v)) if fsrc == "reversed" and isinstance(v, list) else v
        if fsrc == "enumerate" and len(e.args) == 1:
            v = self.ev(e.args[0])
            return [(k, x) for k, x in enumerate(v)]
        if fsrc == "self.nfa.add":
            for a in e.args:
                v = self.ev(a)
                for s in (v if isinstance(v, list) else [v]):
                    if isinstance(s, St):
                        self.f.added.add(s)
            return None
        if fsrc == "ProgramData.imbue" and e.args:
            vals = [self.ev(a) if not (isinstance(a, ast.Attribute) and ast.unparse(a).startswith("DTAG.")) else None for a in e.args]
            return vals[0]
        if fsrc == f"self.{self.rec}" and len(e.args) == 2:
            sub = self.ev(e.args[0])
            start = self.ev(e.args[1])
            if not isinstance(start, St) or not isinstance(sub, str):
                raise AnalysisError(f"thompson: recursive call `{ast.unparse(e)}` not understood")
            end = St("returned")
            self.f.edges.append((start, sub, end))
            return end
        if isinstance(e.func, ast.Attribute) and e.func.attr == "transition" and len(e.args) == 2:
            recv = self.ev(e.func.value)
            sym = self.ev(e.args[0])
            tgt = self.ev(e.args[1])
            if not isinstance(recv, St) or not isinstance(tgt, St):
                raise AnalysisError(f"thompson: `{ast.unparse(e)[:80]}`: receiver / target is not a state")
            if sym == EPS:
                lab = EPS
            elif sym == ("R",):
                lab = "r"
            else:
                raise AnalysisError(f"thompson: transition symbol `{ast.unparse(e.args[0])}` not understood")
            self.f.edges.append((recv, lab, tgt))
            return recv
        raise AnalysisError(f"thompson: call not understood in _convert_to_nfa: `{ast.unparse(e)[:80]}`")


def words(frag, maxlen=6):
    """Words (tuples of labels) that lead from the given start to the returned end, up to maxlen."""
    out = {}
    for (s, l, d) in frag.edges:
        out.setdefault(s, []).append((l, d))

    def closure(states):
        seen = set(states)
        todo = list(states)
        while todo:
            x = todo.pop()
            for (l, d) in out.get(x, ()):
                if l == EPS and d not in seen:
                    seen.add(d)
                    todo.append(d)
        return frozenset(seen)
    res = set()
    cur = {(): closure({frag.start})}
    for n in range(maxlen + 1):
        nxt = {}
        for w, sts in cur.items():
            if frag.returned in sts:
                res.add(w)
            if n == maxlen:
                continue
            by = {}
            for x in sts:
                for (l, d) in out.get(x, ()):
                    if l != EPS:
                        by.setdefault(l, set()).add(d)
            for l, ds in by.items():
                nxt[w + (l,)] = closure(ds) | nxt.get(w + (l,), frozenset())
        cur = nxt
    return res


def expected(kind, maxlen=6):
    if kind == "class":
        return {("r",)}
    if kind == "alternation":
        return {("M1",), ("M2",)}
    if kind == "sequence":
        return {("M1", "M2")}
    if kind == "optional":
        return {(), ("M1",)}
    if kind == "star":
        return {("M1",) * k for k in range(maxlen + 1)}
    raise AnalysisError(f"thompson: no specification for {kind}")


KIND_OF = {"RegexCharClass": "class", "InvertedRegexCharClass": "class", "RegexAlternation": "alternation", "RegexSequence": "sequence",
           "RegexOptional": "optional", "RegexKleene": "star"}


def analyse(model, qualname="RegexMatch._convert_to_nfa"):
    """-> list of (class name, kind, Frag, problems)."""
    fn = model.func(qualname)
    args = [a.arg for a in fn.args.args]
    if len(args) < 3:
        raise AnalysisError("thompson: _convert_to_nfa(self, r, start_state) signature changed")
    r, start = args[1], args[2]
    rec = qualname.split(".")[-1]
    chain = next((st for st in fn.body if isinstance(st, ast.If) and ast.unparse(st.test).startswith(f"isinstance({r},")), None)
    if chain is None:
        raise AnalysisError("thompson: class dispatch of _convert_to_nfa not found")
    results = []
    arm = chain
    while isinstance(arm, ast.If):
        t = arm.test
        if not (isinstance(t, ast.Call) and ast.unparse(t.func) == "isinstance" and ast.unparse(t.args[0]) == r):
            raise AnalysisError(f"thompson: dispatch test `{ast.unparse(t)}` not understood")
        classes = [ast.unparse(x) for x in (t.args[1].elts if isinstance(t.args[1], ast.Tuple) else [t.args[1]])]
        for cls in classes:
            kind = KIND_OF.get(cls)
            if kind is None:
                raise AnalysisError(f"thompson: no specification for regex node class {cls}")
            frag = ArmInterpreter(fn, r, start, rec).run(arm.body)
            results.append((cls, kind, frag, check(frag, kind)))
        nxt = arm.orelse
        arm = nxt[0] if len(nxt) == 1 and isinstance(nxt[0], ast.If) else None
    return results


def check(frag, kind):
    probs = []
    got, want = words(frag), expected(kind)
    if got != want:
        missing = sorted(want - got, key=len)[:3]
        extra = sorted(got - want, key=len)[:3]
        show = lambda ws: ", ".join("eps" if not w else " ".join(w) for w in ws)
        probs.append(("L", f"the fragment's language differs from the operator's ({kind}): " +
                      (f"misses {{{show(missing)}}} " if missing else "") + (f"also accepts {{{show(extra)}}}" if extra else "")))
    claims = {}
    for (s, l, d) in frag.edges:
        if l != EPS:
            claims.setdefault(s, []).append(l)
    for s, ls in claims.items():
        if len(ls) > 1:
            probs.append(("C", f"one state is the origin of {len(ls)} labelled edges / sub-fragments ({', '.join(ls)}): RegexNFState.transitions holds ONE target per symbol, "
                               "so two branches that start with the same character class overwrite each other - `/ab|ac/` loses a branch"))
    if any(s is frag.returned for (s, l, d) in frag.edges):
        probs.append(("E", "the returned end state has an outgoing edge of its own: the caller continues from it (a sequence hangs the next fragment onto it)"))
    lost = [s for s in frag.created if s not in frag.added]
    if lost:
        probs.append(("A", f"{len(lost)} state(s) created in the arm are never added to the automaton (self.nfa.add)"))
    return probs
