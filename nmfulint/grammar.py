"""E2 grammar model: the Lark grammar embedded in nmfu.py, loaded as *data* by the tooling venv's lark.

Gives for every nonterminal the set of tree labels / token types a child parsed as it can carry,
following lark's tree shaping rules (anonymous tokens filtered, `_rule` inlined, `?rule` replaced by
its only child when exactly one child remains and the expansion has no alias), and the exact finite
language of finite terminals.
"""
import ast, math, re
from .core import AnalysisError

try:
    import lark
except ImportError:  # pragma: no cover
    import sys, glob
    for w in glob.glob("/opt/veriftools/wheels/lark-*.whl"):
        sys.path.insert(0, w)
    import lark

try:
    import re._parser as sre_parse
    import re._constants as sre_c
except ImportError:  # pragma: no cover
    import sre_parse
    import sre_constants as sre_c

INF = math.inf


def TOK(name):
    return "TOKEN:" + name


class GrammarModel:
    def __init__(self, model):
        gnode = model.module_assigns.get("grammar")
        if gnode is None:
            raise AnalysisError("anchor lost: module-level `grammar` string")
        try:
            self.text = ast.literal_eval(gnode)
        except Exception:
            raise AnalysisError("`grammar` is no longer a string literal")
        pnode = model.module_assigns.get("parser")
        starts = ["start", "regex"]
        if isinstance(pnode, ast.Call):
            for kw in pnode.keywords:
                if kw.arg == "start":
                    try:
                        starts = ast.literal_eval(kw.value)
                    except Exception:
                        pass
        self.starts = starts if isinstance(starts, list) else [starts]
        try:
            self.lark = lark.Lark(self.text, lexer="dynamic_complete", start=self.starts, propagate_positions=True)
        except Exception as e:
            raise AnalysisError(f"embedded grammar does not load: {e}")
        self.rules = {}      # origin -> [Rule]
        for r in self.lark.rules:
            self.rules.setdefault(r.origin.name, []).append(r)
        for k in list(self.rules):
            self.rules[str(k)] = self.rules.pop(k)
        self.terminals = {t.name: t for t in self.lark.terminals}
        self._compute()

    # -- tree shaping ------------------------------------------------------------------------
    def _sym_kind(self, s):
        """('tok', name, kept) or ('nt', name)."""
        if s.is_term:
            return ("tok", str(s.name), not getattr(s, "filter_out", False))
        return ("nt", str(s.name))

    def _compute(self):
        # count ranges and item sets by fixed point
        cnt = {n: (INF, 0) for n in self.rules}   # spliced child count range when inlined (for `_x` rules)
        items = {n: set() for n in self.rules}    # what one *child position* parsed as N can be
        splice = {n: set() for n in self.rules}   # what an inlined `_x` rule can splice in (item set)
        labels_made = {}                          # label -> list of (origin, expansion description)

        def sym_count(s):
            k = self._sym_kind(s)
            if k[0] == "tok":
                return (1, 1) if k[2] else (0, 0)
            n = k[1]
            if n.startswith("_"):
                return cnt[n]
            return (1, 1)

        def sym_items(s):
            k = self._sym_kind(s)
            if k[0] == "tok":
                return {TOK(k[1])} if k[2] else set()
            n = k[1]
            if n.startswith("_"):
                return splice[n]
            return items[n]

        changed = True
        rounds = 0
        while changed:
            rounds += 1
            if rounds > 200:
                raise AnalysisError("grammar model fixpoint did not converge")
            changed = False
            for n, rs in self.rules.items():
                lo_all, hi_all = INF, 0
                new_items, new_splice = set(), set()
                for r in rs:
                    lo = sum(sym_count(s)[0] for s in r.expansion)
                    hi = sum(sym_count(s)[1] for s in r.expansion)
                    lo_all, hi_all = min(lo_all, lo), max(hi_all, hi)
                    if n.startswith("_"):
                        for s in r.expansion:
                            new_splice |= sym_items(s)
                        continue
                    expand1 = bool(r.options and r.options.expand1) and not r.alias
                    if r.alias:
                        new_items.add(str(r.alias))
                    elif expand1:
                        if lo <= 1 <= hi:
                            for i, s in enumerate(r.expansion):
                                c = sym_count(s)
                                others_lo = sum(sym_count(t)[0] for j, t in enumerate(r.expansion) if j != i)
                                if c[0] <= 1 <= c[1] and others_lo == 0:
                                    new_items |= sym_items(s)
                        if hi >= 2 or lo == 0:
                            new_items.add(n)
                    else:
                        new_items.add(n)
                if lo_all == INF:
                    lo_all = 0
                if (lo_all, hi_all) != cnt[n] and n.startswith("_"):
                    # widen monotonically
                    old = cnt[n]
                    nw = (min(old[0], lo_all), max(old[1], hi_all))
                    if rounds > 20 and nw[1] > old[1]:
                        nw = (nw[0], INF)
                    if nw != old:
                        cnt[n] = nw
                        changed = True
                if not new_items <= items[n]:
                    items[n] |= new_items
                    changed = True
                if not new_splice <= splice[n]:
                    splice[n] |= new_splice
                    changed = True
        self._cnt, self._items, self._splice = cnt, items, splice
        self._sym_count, self._sym_items = sym_count, sym_items
        # label -> expansions that construct a tree with that label
        for n, rs in self.rules.items():
            if n.startswith("_"):
                continue
            for r in rs:
                expand1 = bool(r.options and r.options.expand1) and not r.alias
                lab = str(r.alias) if r.alias else n
                lo = sum(sym_count(s)[0] for s in r.expansion)
                hi = sum(sym_count(s)[1] for s in r.expansion)
                if expand1 and lo == hi == 1:
                    continue  # always inlined: never constructs this label
                seq = []
                for s in r.expansion:
                    c = sym_count(s)
                    if c == (0, 0):
                        continue
                    seq.append({"items": frozenset(sym_items(s)), "min": c[0], "max": c[1]})
                labels_made.setdefault(lab, []).append({"origin": n, "seq": seq, "expand1": expand1})
        self.labels_made = labels_made

    def data(self, nonterminal):
        """Set of tree labels (strings) and token kinds ('TOKEN:NAME') a child parsed as `nonterminal` can be."""
        if nonterminal not in self._items:
            raise AnalysisError(f"grammar anchor lost: rule {nonterminal}")
        if nonterminal.startswith("_"):
            return set(self._splice[nonterminal])
        return set(self._items[nonterminal])

    def labels(self, nonterminal):
        return {x for x in self.data(nonterminal) if not x.startswith("TOKEN:")}

    def all_labels(self):
        return set(self.labels_made)

    def children_of(self, label):
        """List of child sequences (one per constructing expansion): [{'items','min','max'}, ...]."""
        if label not in self.labels_made:
            raise AnalysisError(f"grammar anchor lost: no expansion constructs label {label}")
        return self.labels_made[label]

    def child_at(self, label, index):
        """Union of item sets that child[index] of a `label` tree can be (index >= 0 from the front, only through
        fixed-count prefixes; negative from the back through fixed-count suffixes). None when not determinable."""
        out = set()
        for exp in self.children_of(label):
            seq = exp["seq"] if index >= 0 else list(reversed(exp["seq"]))
            pos = 0
            want = index if index >= 0 else -index - 1
            found = False
            for el in seq:
                if el["min"] == el["max"]:
                    if pos <= want < pos + el["min"]:
                        out |= el["items"]
                        found = True
                        break
                    pos += el["min"]
                else:
                    # variable-count element: positions from here on may be this or any later element
                    rest = seq[seq.index(el):]
                    for e2 in rest:
                        out |= e2["items"]
                    found = True
                    break
            if not found:
                continue
        return out

    def min_count(self, label, child_label):
        """Least number of `child_label` children a `label` tree has, over every expansion that constructs it."""
        return min(sum(el["min"] for el in exp["seq"] if el["items"] == frozenset({child_label})) for exp in self.children_of(label))

    # -- finite terminals -----------------------------------------------------------------
    def terminal_regex(self, name):
        t = self.terminals.get(name)
        if t is None:
            raise AnalysisError(f"grammar anchor lost: terminal {name}")
        return t.pattern.to_regexp()

    def terminal_language(self, name, cap=2048):
        """Exact finite language of a terminal as a set of strings, or None if infinite / too large."""
        rx = self.terminal_regex(name)
        try:
            parsed = sre_parse.parse(rx)
        except Exception as e:
            raise AnalysisError(f"cannot parse terminal regex {name}: {e}")
        return _lang(parsed, cap)


def _lang(seq, cap):
    res = {""}
    for op, av in seq:
        part = _lang_item(op, av, cap)
        if part is None:
            return None
        res = {a + b for a in res for b in part}
        if len(res) > cap:
            return None
    return res


def _lang_item(op, av, cap):
    name = str(op)
    if name == "LITERAL":
        return {chr(av)}
    if name == "IN":
        out = set()
        for o2, a2 in av:
            n2 = str(o2)
            if n2 == "LITERAL":
                out.add(chr(a2))
            elif n2 == "RANGE":
                if a2[1] - a2[0] > cap:
                    return None
                out |= {chr(c) for c in range(a2[0], a2[1] + 1)}
            else:
                return None  # NEGATE, CATEGORY ...
        return out
    if name == "BRANCH":
        out = set()
        for alt in av[1]:
            p = _lang(alt, cap)
            if p is None:
                return None
            out |= p
        return out
    if name == "SUBPATTERN":
        return _lang(av[3], cap)
    if name in ("MAX_REPEAT", "MIN_REPEAT"):
        lo, hi, sub = av
        if hi is sre_c.MAXREPEAT or hi > 8:
            return None
        base = _lang(sub, cap)
        if base is None:
            return None
        out = set()
        cur = {""}
        for i in range(0, hi + 1):
            if i >= lo:
                out |= cur
            cur = {a + b for a in cur for b in base}
            if len(cur) > cap:
                return None
        return out
    return None


def charset_of_regex_atom(rx, universe=range(256)):
    """For a regex that matches exactly one character: the set of accepted characters over `universe` (by matching
    each candidate with the stdlib re on the *grammar's* regex - data, not nmfu code)."""
    c = re.compile(rx, re.S)
    return {chr(i) for i in universe if c.fullmatch(chr(i))}
