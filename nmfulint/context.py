"""Per-run analysis context: source model plus lazily built engines."""
from . import core
from .srcmodel import SourceModel


class Ctx:
    def __init__(self, source_text=None):
        if source_text is None:
            with open(core.REPO_FILE, encoding="utf-8") as f:
                source_text = f.read()
        self.text = source_text
        self.model = SourceModel(source_text, core.REPO_FILE)
        self._grammar = None
        self._emit = None
        self._flags = None
        self._cg = None

    @property
    def grammar(self):
        if self._grammar is None:
            from .grammar import GrammarModel
            self._grammar = GrammarModel(self.model)
        return self._grammar

    @property
    def emit(self):
        if self._emit is None:
            from .emit import Emitter
            self._emit = Emitter(self.model)
        return self._emit

    @property
    def flags(self):
        if self._flags is None:
            from .flags import FlagTable
            self._flags = FlagTable(self.model)
        return self._flags

    @property
    def callgraph(self):
        if self._cg is None:
            from .callgraph import CallGraph
            self._cg = CallGraph(self.model)
        return self._cg

    def module_str_lists(self):
        """Module-level names bound to literal lists/tuples of strings (e.g. all_sum_expr_nodes)."""
        import ast
        out = {}
        for k, v in self.model.module_assigns.items():
            if isinstance(v, (ast.List, ast.Tuple)) and v.elts and all(isinstance(e, ast.Constant) and isinstance(e.value, str) for e in v.elts):
                out[k] = [e.value for e in v.elts]
        return out
