"""E9 per-function flow analyses (syntax-directed, no CFG needed: nmfu.py uses only structured control flow).

* definite assignment: uses of a local that is not assigned on every path reaching the use
* may-fall-off-end: value-returning functions that can reach the end of their body
"""
import ast
import builtins
from .srcmodel import strip_doc

ALL = None  # lattice top: "every name" (for paths that leave)


def _targets(node):
    out = set()
    for n in ast.walk(node):
        if isinstance(n, ast.Name) and isinstance(n.ctx, (ast.Store, ast.Del)):
            out.add(n.id)
    return out


def _meet(a, b):
    if a is ALL:
        return b
    if b is ALL:
        return a
    return a & b


class DefiniteAssignment:
    """Reports (name, lineno) for loads of function locals not definitely assigned."""

    def __init__(self, fn):
        self.fn = fn
        self.locals = set()
        for n in self._walk_scope(fn):
            if isinstance(n, ast.Name) and isinstance(n.ctx, ast.Store):
                self.locals.add(n.id)
            if isinstance(n, (ast.FunctionDef, ast.ClassDef)) and n is not fn:
                self.locals.add(n.name)
            if isinstance(n, (ast.Import, ast.ImportFrom)):
                for a in n.names:
                    self.locals.add((a.asname or a.name).split(".")[0])
            if isinstance(n, ast.ExceptHandler) and n.name:
                self.locals.add(n.name)
        self.params = {a.arg for a in fn.args.args + fn.args.kwonlyargs + fn.args.posonlyargs}
        if fn.args.vararg:
            self.params.add(fn.args.vararg.arg)
        if fn.args.kwarg:
            self.params.add(fn.args.kwarg.arg)
        for n in self._walk_scope(fn):
            if isinstance(n, (ast.Global, ast.Nonlocal)):
                self.locals -= set(n.names)
        self.locals -= self.params
        self.problems = []

    def _walk_scope(self, fn):
        """Nodes of this function's scope (not descending into nested defs/lambdas/comprehensions' own scopes, except that
        comprehension iterables of the first generator belong to the enclosing scope - approximated by skipping comprehensions)."""
        todo = list(ast.iter_child_nodes(fn))
        while todo:
            n = todo.pop()
            yield n
            if isinstance(n, (ast.FunctionDef, ast.AsyncFunctionDef, ast.Lambda, ast.ClassDef)):
                continue
            if isinstance(n, (ast.ListComp, ast.SetComp, ast.DictComp, ast.GeneratorExp)):
                continue
            todo.extend(ast.iter_child_nodes(n))

    def run(self):
        self._block(strip_doc(self.fn.body), set(self.params))
        return self.problems

    # returns the set definitely assigned after the block, or ALL if the block always leaves
    def _block(self, stmts, da):
        for st in stmts:
            if da is ALL:
                return ALL
            da = self._stmt(st, da)
        return da

    def _use(self, expr, da):
        """Check loads in an expression evaluated with `da`; comprehension-bound names are local to the comprehension."""
        if expr is None:
            return

        def rec(n, bound):
            if isinstance(n, ast.Name):
                if isinstance(n.ctx, ast.Load) and n.id in self.locals and n.id not in da and n.id not in bound:
                    self.problems.append((n.id, n.lineno))
                return
            if isinstance(n, (ast.Lambda, ast.FunctionDef, ast.AsyncFunctionDef)):
                return  # evaluated later: closures are not checked
            if isinstance(n, (ast.ListComp, ast.SetComp, ast.DictComp, ast.GeneratorExp)):
                b = set(bound)
                for g in n.generators:
                    rec(g.iter, b)
                    b |= _targets(g.target)
                    for i in g.ifs:
                        rec(i, b)
                if isinstance(n, ast.DictComp):
                    rec(n.key, b)
                    rec(n.value, b)
                else:
                    rec(n.elt, b)
                return
            if isinstance(n, ast.NamedExpr):
                rec(n.value, bound)
                return
            for c in ast.iter_child_nodes(n):
                rec(c, bound)
        rec(expr, set())

    def _stmt(self, st, da):
        if isinstance(st, (ast.FunctionDef, ast.AsyncFunctionDef, ast.ClassDef)):
            return da | {st.name}
        if isinstance(st, (ast.Return, ast.Raise)):
            for c in ast.iter_child_nodes(st):
                self._use(c, da)
            return ALL
        if isinstance(st, (ast.Continue, ast.Break)):
            return ALL
        if isinstance(st, ast.Assign):
            self._use(st.value, da)
            for t in st.targets:
                for n in ast.walk(t):
                    if isinstance(n, (ast.Subscript, ast.Attribute)):
                        self._use(n.value, da)
                        if isinstance(n, ast.Subscript):
                            self._use(n.slice, da)
            return da | set().union(*[_targets(t) for t in st.targets])
        if isinstance(st, ast.AugAssign):
            self._use(st.value, da)
            if isinstance(st.target, ast.Name):
                if st.target.id in self.locals and st.target.id not in da:
                    self.problems.append((st.target.id, st.lineno))
                return da | {st.target.id}
            self._use(st.target, da)
            return da
        if isinstance(st, ast.AnnAssign):
            self._use(st.value, da)
            return da | (_targets(st.target) if st.value is not None else set())
        if isinstance(st, ast.If):
            self._use(st.test, da)
            a = self._block(st.body, set(da))
            b = self._block(st.orelse, set(da)) if st.orelse else set(da)
            return _meet(a, b)
        if isinstance(st, (ast.For, ast.AsyncFor)):
            self._use(st.iter, da)
            inner = set(da) | _targets(st.target)
            self._block(st.body, inner)
            after = set(da)
            if st.orelse:
                r = self._block(st.orelse, set(da))
                after = da if r is ALL else r
            return after
        if isinstance(st, ast.While):
            self._use(st.test, da)
            body_da = self._block(st.body, set(da))
            if isinstance(st.test, ast.Constant) and st.test.value is True:
                # leaves only through break: names assigned before every break are unknown here; approximate by the entry set plus
                # names assigned at top level of the body before the first statement that may break
                extra = set()
                for s in st.body:
                    if any(isinstance(n, ast.Break) for n in ast.walk(s)):
                        break
                    if isinstance(s, ast.Assign):
                        extra |= set().union(*[_targets(t) for t in s.targets])
                return set(da) | extra
            return set(da)
        if isinstance(st, (ast.With, ast.AsyncWith)):
            for it in st.items:
                self._use(it.context_expr, da)
                if it.optional_vars is not None:
                    da = da | _targets(it.optional_vars)
            return self._block(st.body, set(da))
        if isinstance(st, ast.Try):
            body = self._block(st.body, set(da))
            if st.orelse and body is not ALL:
                body = self._block(st.orelse, set(body))
            outs = [body]
            for h in st.handlers:
                start = set(da) | ({h.name} if h.name else set())
                outs.append(self._block(h.body, start))
            res = ALL
            for o in outs:
                res = _meet(res, o)
            if st.finalbody:
                base = set(da) if res is ALL else set(res)
                f = self._block(st.finalbody, base)
                if f is ALL:
                    return ALL
                if res is not ALL:
                    res = f
            return res
        if isinstance(st, ast.Expr):
            self._use(st.value, da)
            v = st.value
            if isinstance(v, ast.Call) and ast.unparse(v.func) in ("exit", "sys.exit", "quit", "os._exit"):
                return ALL
            return da
        if isinstance(st, ast.Assert):
            self._use(st.test, da)
            return da
        if isinstance(st, ast.Delete):
            return da
        if isinstance(st, (ast.Import, ast.ImportFrom)):
            return da | {(a.asname or a.name).split(".")[0] for a in st.names}
        if isinstance(st, (ast.Pass, ast.Global, ast.Nonlocal)):
            return da
        for c in ast.iter_child_nodes(st):
            if isinstance(c, ast.expr):
                self._use(c, da)
        return da


def may_fall_off(fn):
    """A function that returns a value on some path and can also reach the end of its body (implicitly returning None)."""
    returns_value = any(isinstance(n, ast.Return) and n.value is not None and not (isinstance(n.value, ast.Constant) and n.value.value is None)
                        for n in _own_nodes(fn))
    if not returns_value:
        return False
    return not _leaves(strip_doc(fn.body))


def _own_nodes(fn):
    todo = list(ast.iter_child_nodes(fn))
    while todo:
        n = todo.pop()
        yield n
        if isinstance(n, (ast.FunctionDef, ast.AsyncFunctionDef, ast.Lambda, ast.ClassDef)):
            continue
        todo.extend(ast.iter_child_nodes(n))


def _leaves(body):
    if not body:
        return False
    last = body[-1]
    if isinstance(last, (ast.Return, ast.Raise)):
        return True
    if isinstance(last, ast.If):
        return bool(last.orelse) and _leaves(last.body) and _leaves(last.orelse)
    if isinstance(last, ast.Try):
        return (_leaves(last.body) or (bool(last.orelse) and _leaves(last.orelse))) and all(_leaves(h.body) for h in last.handlers)
    if isinstance(last, ast.With):
        return _leaves(last.body)
    if isinstance(last, ast.While) and isinstance(last.test, ast.Constant) and last.test.value is True:
        return not any(isinstance(n, ast.Break) for n in ast.walk(last))
    return False
