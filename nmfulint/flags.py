"""E7 flag-table model: ProgramFlag / ProgramOption class bodies and _OPTIMIZE_LEVELS as literal tables."""
import ast
from .core import AnalysisError


class Flag:
    def __init__(self, name, value, helpstr="", default=False, implies=(), exclusive_with=()):
        self.name, self.value, self.helpstr, self.default = name, value, helpstr, default
        self.implies, self.exclusive_with = tuple(implies), tuple(exclusive_with)


class FlagTable:
    def __init__(self, model):
        ci = model.cls("ProgramFlag")
        self.flags = {}
        self.by_value = {}
        for name, vnode in model.enum_members("ProgramFlag"):
            try:
                v = ast.literal_eval(vnode)
            except Exception:
                raise AnalysisError(f"ProgramFlag.{name} is not a literal")
            if isinstance(v, tuple):
                f = Flag(name, *v)
            else:
                f = Flag(name, v)
            self.flags[name] = f
            self.by_value[f.value] = f
        # levels
        pd = model.cls("ProgramData")
        lv = pd.attrs.get("_OPTIMIZE_LEVELS")
        if not isinstance(lv, ast.Dict):
            raise AnalysisError("anchor lost: ProgramData._OPTIMIZE_LEVELS dict literal")
        self.levels = {}
        for k, v in zip(lv.keys, lv.values):
            kk = ast.literal_eval(k)
            names = []
            elts = v.elts if isinstance(v, (ast.Tuple, ast.List)) else None
            if elts is None:
                raise AnalysisError("_OPTIMIZE_LEVELS value is not a tuple")
            for e in elts:
                if isinstance(e, ast.Attribute) and isinstance(e.value, ast.Name) and e.value.id == "ProgramFlag":
                    names.append(e.attr)
                else:
                    raise AnalysisError("_OPTIMIZE_LEVELS entry is not ProgramFlag.X")
            self.levels[kk] = names
        self.options = {}
        for name, vnode in model.enum_members("ProgramOption"):
            try:
                self.options[name] = ast.literal_eval(vnode)
            except Exception:
                raise AnalysisError(f"ProgramOption.{name} is not a literal")

    def implied_closure(self, name):
        out, todo = set(), [name]
        while todo:
            n = todo.pop()
            for v in self.flags[n].implies:
                f = self.by_value.get(v)
                if f is None:
                    continue
                if f.name not in out:
                    out.add(f.name)
                    todo.append(f.name)
        return out

    def implies(self, a, b):
        """flag a on => flag b on (after the implication fixpoint)."""
        return a == b or b in self.implied_closure(a)
