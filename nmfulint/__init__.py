"""nmfulint - repository-specific static analysis for mincrmatt12/nmfu (see /verif/DESIGN.md)."""
