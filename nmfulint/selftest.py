"""Checker self-validation battery (thorough tier) - filled in later."""
def run_battery(prop, rep):
    return
