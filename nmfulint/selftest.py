"""Checker self-validation battery (thorough tier, DESIGN.md section 6).

(1) firing variants: every seeded change filed under /verif/seeded that this property's rules are expected to catch (seeded/EXPECTED.json)
    is applied to the *current* source in memory and must raise a violation;
(2) passing twins: behaviour-preserving rewrites of the current source (full re-format through ast.unparse, shifted line numbers, every local of every
    function renamed) must stay silent;
(3) history: on the pinned original tree (root commit of /repo, read with `git show`) the rules of every finding recorded as fixed for this
    property must fire.
A rule that misses its variant, fires on a twin, or is silent on the pinned tree makes the check exit 2: then the machinery, not nmfu, is broken.
"""
import ast, glob, importlib, json, os, subprocess, tempfile
from . import core
from .context import Ctx


def _run(prop, text):
    mod = importlib.import_module(f"nmfulint.rules.{prop.lower()}")
    rep = core.Report(prop)
    mod.run(Ctx(text), rep, "quick")
    kf = core.load_known_findings()
    return [v for v in rep.violations if not any(core.finding_matches(e, v) for e in kf.get("open", []) if e.get("property") == prop)]


def _patched(text, patch_file):
    with tempfile.TemporaryDirectory() as td:
        src = os.path.join(td, "nmfu.py")
        dst = os.path.join(td, "out.py")
        open(src, "w").write(text)
        r = subprocess.run(["patch", "-s", "-o", dst, src, patch_file], capture_output=True, text=True)
        if r.returncode != 0 or not os.path.exists(dst):
            return None
        return open(dst).read()


class _RenameLocals(ast.NodeTransformer):
    """Rename every function-local variable (not parameters, not names shared with nested functions) by appending a suffix."""
    def visit_FunctionDef(self, node):
        params = {a.arg for a in node.args.args + node.args.kwonlyargs + node.args.posonlyargs}
        if node.args.vararg:
            params.add(node.args.vararg.arg)
        if node.args.kwarg:
            params.add(node.args.kwarg.arg)
        nested_defs = [n for n in ast.walk(node) if isinstance(n, (ast.FunctionDef, ast.Lambda)) and n is not node]
        nested_names = {n.id for nd in nested_defs for n in ast.walk(nd) if isinstance(n, ast.Name)}
        own, todo = [], list(ast.iter_child_nodes(node))
        while todo:
            n = todo.pop()
            if isinstance(n, (ast.FunctionDef, ast.Lambda, ast.ClassDef)):
                continue
            own.append(n)
            todo.extend(ast.iter_child_nodes(n))
        local = {n.id for n in own if isinstance(n, ast.Name) and isinstance(n.ctx, ast.Store)}
        for n in own:
            if isinstance(n, (ast.Global, ast.Nonlocal)):
                params |= set(n.names)
        local -= params
        local -= nested_names
        for n in own:
            if isinstance(n, ast.Name) and n.id in local:
                n.id += "_rn"
            if isinstance(n, ast.ExceptHandler) and n.name in local:
                n.name += "_rn"
        for nd in node.body:
            self.generic_visit(nd) if not isinstance(nd, ast.FunctionDef) else self.visit_FunctionDef(nd)
        return node


def rename_locals_twin(text):
    return ast.unparse(ast.fix_missing_locations(_RenameLocals().visit(ast.parse(text))))


def run_battery(prop, rep):
    here = core.VERIF_DIR
    text = open(core.REPO_FILE).read()
    rep.rule("SELFTEST", "firing variants (seeded changes), passing twins (re-format, line shift), pinned-tree history")
    exp_file = os.path.join(here, "seeded", "EXPECTED.json")
    expected = json.load(open(exp_file)) if os.path.exists(exp_file) else {}
    fired = skipped = 0
    for sid, props in sorted(expected.items()):
        if prop not in props:
            continue
        pf = os.path.join(here, "seeded", sid, "patch.diff")
        mt = _patched(text, pf) if os.path.exists(pf) else None
        if mt is None:
            skipped += 1
            rep.notes.append(f"seeded change {sid} no longer applies to the current tree (skipped)")
            continue
        try:
            bad = _run(prop, mt)
        except core.AnalysisError as e:
            raise core.AnalysisError(f"self-test: analysis error on seeded change {sid}: {e}")
        if not bad:
            raise core.AnalysisError(f"self-test: {prop} rules are silent on seeded change {sid}, which they are recorded to catch")
        fired += 1
        rep.ok("SELFTEST", "seeded/" + sid, f"fires: {sorted({v.rule for v in bad})}")
    twins = {"reformat(ast.unparse)": ast.unparse(ast.parse(text)), "line-shift": "# shifted\n# lines\n\n" + text, "rename-every-local": rename_locals_twin(text)}
    for name, t in twins.items():
        try:
            bad = _run(prop, t)
        except core.AnalysisError as e:
            raise core.AnalysisError(f"self-test: analysis error on passing twin {name}: {e}")
        if bad:
            raise core.AnalysisError(f"self-test: {prop} raises {sorted({v.rule for v in bad})} on the behaviour-preserving twin {name}")
        rep.ok("SELFTEST", "twin/" + name, "silent")
    # (2b) behaviour-preserving corpus: the refactorings written by sub-agents (benign/<id>/patch.diff, each verified to leave the generated output byte-identical)
    # that are recorded as silent (benign/EXPECTED_SILENT.json) must stay silent; so must the mechanical whole-file rewrites of tools/benign_twins.py
    silent_file = os.path.join(here, "benign", "EXPECTED_SILENT.json")
    n_benign = 0
    if os.path.exists(silent_file):
        for bid in json.load(open(silent_file)):
            pf = os.path.join(here, "benign", bid, "patch.diff")
            mt = _patched(text, pf) if os.path.exists(pf) else None
            if mt is None:
                rep.notes.append(f"behaviour-preserving patch {bid} no longer applies to the current tree (skipped)")
                continue
            try:
                bad = _run(prop, mt)
            except core.AnalysisError as e:
                raise core.AnalysisError(f"self-test: analysis error on the behaviour-preserving patch benign/{bid}: {e}")
            if bad:
                raise core.AnalysisError(f"self-test: {prop} raises {sorted({v.rule for v in bad})} on the behaviour-preserving patch benign/{bid}")
            n_benign += 1
        rep.ok("SELFTEST", "benign corpus", f"{n_benign} behaviour-preserving patches: silent")
    import importlib.util
    spec = importlib.util.spec_from_file_location("benign_twins", os.path.join(here, "tools", "benign_twins.py"))
    bt = importlib.util.module_from_spec(spec)
    spec.loader.exec_module(bt)
    for name in ("invert_if", "split_and", "swap_eq", "not_in", "continue_to_nested", "else_after_exit", "flatten_else", "merge_if", "isinstance_tuple", "reverse_methods"):
        try:
            bad = _run(prop, bt.make(text, name))
        except core.AnalysisError as e:
            raise core.AnalysisError(f"self-test: analysis error on the mechanical rewrite {name}: {e}")
        if bad:
            raise core.AnalysisError(f"self-test: {prop} raises {sorted({v.rule for v in bad})} on the mechanical behaviour-preserving rewrite {name} (whole file)")
        rep.ok("SELFTEST", "twin/" + name, "silent")
    kf = core.load_known_findings()
    fixed_rules = [e for e in kf.get("fixed", []) if e.get("property") == prop]
    if fixed_rules:
        try:
            root = subprocess.run(["git", "-C", "/repo", "rev-list", "--max-parents=0", "HEAD"], capture_output=True, text=True).stdout.split()[0]
            old = subprocess.run(["git", "-C", "/repo", "show", f"{root}:nmfu.py"], capture_output=True, text=True).stdout
        except Exception:
            old = ""
        if old:
            bad = _run(prop, old)
            rules = {v.rule for v in bad}
            for e in fixed_rules:
                want = [r.strip() for r in e["rule"].split("/")]
                if not any(w in rules for w in want):
                    raise core.AnalysisError(f"self-test: rule {e['rule']} of fixed finding {e['id']} is silent on the pinned tree (root commit)")
                rep.ok("SELFTEST", "history/" + e["id"], f"rule {e['rule']} fires on the pinned tree")
        else:
            rep.notes.append("pinned tree not available through git: history self-test skipped")
    rep.analysed["selftest"] = {"seeded_fired": fired, "seeded_skipped": skipped, "twins": len(twins) + 10, "benign_patches_silent": n_benign, "history": len(fixed_rules)}
