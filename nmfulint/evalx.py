"""E4 small exact evaluators: linear terms over one symbol, threshold chains, Venn-region set algebra.

They interpret ASTs over abstract domains; they do not execute nmfu code and call no solver.
"""
import ast
from .core import AnalysisError


def linear(node_or_src, is_symbol):
    """Evaluate an int expression as a*N + b where N is any sub-expression for which is_symbol(src) holds.
    Returns (a, b) or None when the expression is not of that shape."""
    node = ast.parse(node_or_src, mode="eval").body if isinstance(node_or_src, str) else node_or_src

    def go(n):
        src = ast.unparse(n)
        if is_symbol(src):
            return (1, 0)
        if isinstance(n, ast.Constant) and isinstance(n.value, int) and not isinstance(n.value, bool):
            return (0, n.value)
        if isinstance(n, ast.BinOp) and isinstance(n.op, (ast.Add, ast.Sub)):
            l, r = go(n.left), go(n.right)
            if l is None or r is None:
                return None
            if isinstance(n.op, ast.Add):
                return (l[0] + r[0], l[1] + r[1])
            return (l[0] - r[0], l[1] - r[1])
        if isinstance(n, ast.BinOp) and isinstance(n.op, ast.Mult):
            l, r = go(n.left), go(n.right)
            if l is None or r is None:
                return None
            if l[0] == 0:
                return (l[1] * r[0], l[1] * r[1])
            if r[0] == 0:
                return (r[1] * l[0], r[1] * l[1])
            return None
        if isinstance(n, ast.UnaryOp) and isinstance(n.op, ast.USub):
            v = go(n.operand)
            return None if v is None else (-v[0], -v[1])
        if isinstance(n, ast.Call) and isinstance(n.func, ast.Name) and n.func.id in ("str", "int") and len(n.args) == 1:
            return go(n.args[0])
        return None
    return go(node)


def const_int(node):
    """Constant-fold an integer expression made of literals and << + - * ** (no names). None if not foldable."""
    if isinstance(node, ast.Constant) and isinstance(node.value, int) and not isinstance(node.value, bool):
        return node.value
    if isinstance(node, ast.BinOp):
        l, r = const_int(node.left), const_int(node.right)
        if l is None or r is None:
            return None
        if isinstance(node.op, ast.LShift):
            return l << r
        if isinstance(node.op, ast.Add):
            return l + r
        if isinstance(node.op, ast.Sub):
            return l - r
        if isinstance(node.op, ast.Mult):
            return l * r
        if isinstance(node.op, ast.Pow) and 0 <= r < 128:
            return l ** r
    if isinstance(node, ast.UnaryOp) and isinstance(node.op, ast.USub):
        v = const_int(node.operand)
        return None if v is None else -v
    return None


# ---------------------------------------------------------------------------------------------
# Venn-region evaluator: frozenset expressions over two generators A, B (4 regions -> 4-bit masks)
# regions: bit0 = A only, bit1 = A&B, bit2 = B only, bit3 = neither
A_MASK, B_MASK, U_MASK = 0b0011, 0b0110, 0b1111


class VClass:
    """A character class value: kind 'pos' (denotes S) or 'neg' (denotes complement of S), with S a region mask."""

    def __init__(self, kind, mask):
        self.kind, self.mask = kind, mask

    def denotes(self, U=U_MASK):
        return (self.mask & U) if self.kind == "pos" else (U & ~self.mask)

    def __repr__(self):
        return f"{self.kind}:{self.mask:04b}"


class VennEval:
    """Interprets the bodies of RegexCharClass / InvertedRegexCharClass methods over region masks."""

    def __init__(self, model, U=U_MASK):
        self.model = model
        self.U = U      # inhabited Venn regions = the universe for this evaluation

    def run_method(self, cls, meth, self_val, other_val=None, depth=0):
        if depth > 4:
            raise AnalysisError("Venn evaluator: delegation too deep")
        owner, fn = self.model.resolve_method(cls, meth)
        if fn is None:
            raise AnalysisError(f"anchor lost: {cls}.{meth}")
        env = {"self": self_val}
        params = [a.arg for a in fn.args.args]
        if len(params) > 1:
            env[params[1]] = other_val
        return self._block(fn.body, env, depth)

    def _block(self, stmts, env, depth):
        for st in stmts:
            if isinstance(st, ast.Expr) and isinstance(st.value, ast.Constant):
                continue
            if isinstance(st, ast.If):
                c = self._expr(st.test, env, depth)
                if not isinstance(c, bool):
                    raise AnalysisError(f"Venn evaluator: non-boolean test {ast.unparse(st.test)}")
                r = self._block(st.body if c else st.orelse, env, depth)
                if r is not _NO:
                    return r
                continue
            if isinstance(st, ast.Assign):
                val = self._expr(st.value, env, depth)
                t = st.targets[0]
                if isinstance(t, ast.Name):
                    env[t.id] = val
                elif isinstance(t, ast.Tuple) and isinstance(val, tuple) and len(val) == len(t.elts):
                    for e, v in zip(t.elts, val):
                        env[e.id] = v
                else:
                    raise AnalysisError("Venn evaluator: unsupported assignment")
                continue
            if isinstance(st, ast.Return):
                return self._expr(st.value, env, depth) if st.value is not None else None
            raise AnalysisError(f"Venn evaluator: unsupported statement {type(st).__name__} in class algebra")
        return _NO

    def _expr(self, n, env, depth):
        if isinstance(n, ast.Name):
            if n.id in env:
                return env[n.id]
            raise AnalysisError(f"Venn evaluator: unknown name {n.id}")
        if isinstance(n, ast.Constant):
            return n.value
        if isinstance(n, ast.Tuple):
            return tuple(self._expr(e, env, depth) for e in n.elts)
        if isinstance(n, ast.Attribute) and n.attr == "chars":
            v = self._expr(n.value, env, depth)
            if isinstance(v, VClass):
                return ("set", v.mask)
        if isinstance(n, ast.BinOp):
            l, r = self._expr(n.left, env, depth), self._expr(n.right, env, depth)
            if isinstance(l, tuple) and isinstance(r, tuple) and l[0] == "set" and r[0] == "set":
                if isinstance(n.op, ast.BitOr):
                    return ("set", l[1] | r[1])
                if isinstance(n.op, ast.BitAnd):
                    return ("set", l[1] & r[1])
                if isinstance(n.op, ast.Sub):
                    return ("set", l[1] & ~r[1] & self.U)
                if isinstance(n.op, ast.BitXor):
                    return ("set", l[1] ^ r[1])
        if isinstance(n, ast.Compare) and len(n.ops) == 1:
            l, r = self._expr(n.left, env, depth), self._expr(n.comparators[0], env, depth)
            op = n.ops[0]
            if isinstance(l, tuple) and l[0] == "set" and isinstance(r, tuple) and r[0] == "set":
                if isinstance(op, ast.LtE):
                    return (l[1] & ~r[1] & self.U) == 0
                if isinstance(op, ast.GtE):
                    return (r[1] & ~l[1] & self.U) == 0
                if isinstance(op, ast.Eq):
                    return (l[1] & self.U) == (r[1] & self.U)
            if isinstance(l, tuple) and l[0] == "len" and isinstance(r, int) and r == 256 and isinstance(op, ast.GtE):
                return (l[1] & self.U) == self.U      # `len(x) >= 256` read as "x is the universe"
        if isinstance(n, ast.UnaryOp) and isinstance(n.op, ast.Not):
            v = self._expr(n.operand, env, depth)
            if isinstance(v, tuple) and v[0] == "set":
                return (v[1] & self.U) == 0
            if isinstance(v, bool):
                return not v
        if isinstance(n, ast.Call):
            f = n.func
            if isinstance(f, ast.Name) and f.id == "isinstance" and len(n.args) == 2:
                v = self._expr(n.args[0], env, depth)
                if not isinstance(v, VClass) or not isinstance(n.args[1], ast.Name):
                    raise AnalysisError("Venn evaluator: isinstance on non-class value")
                cn = "InvertedRegexCharClass" if v.kind == "neg" else "RegexCharClass"
                return self.model.is_subclass(cn, n.args[1].id)
            if isinstance(f, ast.Name) and f.id in ("RegexCharClass", "InvertedRegexCharClass") and len(n.args) == 1:
                v = self._expr(n.args[0], env, depth)
                if isinstance(v, tuple) and v[0] == "set":
                    return VClass("neg" if f.id.startswith("Inverted") else "pos", v[1])
            if isinstance(f, ast.Name) and f.id == "len" and len(n.args) == 1:
                v = self._expr(n.args[0], env, depth)
                if isinstance(v, tuple) and v[0] == "set":
                    return ("len", v[1])
            if isinstance(f, ast.Attribute):
                recv = self._expr(f.value, env, depth)
                if isinstance(recv, tuple) and recv[0] == "set" and f.attr == "isdisjoint" and len(n.args) == 1:
                    o = self._expr(n.args[0], env, depth)
                    return (recv[1] & o[1] & self.U) == 0
                if isinstance(recv, VClass):
                    cn = "InvertedRegexCharClass" if recv.kind == "neg" else "RegexCharClass"
                    arg = self._expr(n.args[0], env, depth) if n.args else None
                    return self.run_method(cn, f.attr, recv, arg, depth + 1)
        raise AnalysisError(f"Venn evaluator: unsupported expression {ast.unparse(n)[:80]}")


_NO = object()


# ---------------------------------------------------------------------------------------------
# finite-domain constant folding of a *loop-free pure table function* (used for the 256-entry case-folding table only)
import string as _string

_STR_CONSTS = {"ascii_letters": _string.ascii_letters, "ascii_lowercase": _string.ascii_lowercase, "ascii_uppercase": _string.ascii_uppercase,
               "digits": _string.digits, "hexdigits": _string.hexdigits, "whitespace": _string.whitespace, "punctuation": _string.punctuation}
_STR_METHODS = {"index", "find", "isalpha", "isupper", "islower", "swapcase", "upper", "lower", "isdigit", "isascii"}


class FoldError(Exception):
    pass


def fold_function(fn, args):
    """Evaluate a loop-free function body (if/return/assign only) on concrete arguments. Raises FoldError outside the subset."""
    params = [a.arg for a in fn.args.args]
    env = dict(zip(params[-len(args):], args)) if args else {}

    def block(stmts):
        for st in stmts:
            if isinstance(st, ast.Expr) and isinstance(st.value, ast.Constant):
                continue
            if isinstance(st, ast.Return):
                return ("ret", expr(st.value) if st.value is not None else None)
            if isinstance(st, ast.If):
                r = block(st.body if expr(st.test) else st.orelse)
                if r is not None:
                    return r
                continue
            if isinstance(st, ast.Assign) and len(st.targets) == 1 and isinstance(st.targets[0], ast.Name):
                env[st.targets[0].id] = expr(st.value)
                continue
            raise FoldError(f"statement {type(st).__name__} outside the table-function subset")
        return None

    def expr(n):
        if isinstance(n, ast.Constant):
            return n.value
        if isinstance(n, ast.Name):
            if n.id in env:
                return env[n.id]
            raise FoldError(f"free name {n.id}")
        if isinstance(n, ast.Attribute) and isinstance(n.value, ast.Name) and n.value.id == "string" and n.attr in _STR_CONSTS:
            return _STR_CONSTS[n.attr]
        if isinstance(n, (ast.List, ast.Tuple)):
            return [expr(e) for e in n.elts]
        if isinstance(n, ast.BinOp):
            l, r = expr(n.left), expr(n.right)
            if isinstance(n.op, ast.Add):
                return l + r
            if isinstance(n.op, ast.Sub):
                return l - r
            if isinstance(n.op, ast.Mod):
                return l % r
            if isinstance(n.op, ast.Mult):
                return l * r
            if isinstance(n.op, ast.BitXor):
                return l ^ r
            if isinstance(n.op, ast.BitOr):
                return l | r
            if isinstance(n.op, ast.BitAnd):
                return l & r
            raise FoldError("operator")
        if isinstance(n, ast.Compare) and len(n.ops) == 1:
            l, r = expr(n.left), expr(n.comparators[0])
            op = n.ops[0]
            if isinstance(op, ast.In):
                return l in r
            if isinstance(op, ast.NotIn):
                return l not in r
            if isinstance(op, ast.Eq):
                return l == r
            if isinstance(op, ast.NotEq):
                return l != r
            if isinstance(op, ast.Lt):
                return l < r
            if isinstance(op, ast.LtE):
                return l <= r
            if isinstance(op, ast.Gt):
                return l > r
            if isinstance(op, ast.GtE):
                return l >= r
            raise FoldError("comparison")
        if isinstance(n, ast.BoolOp):
            vals = [expr(v) for v in n.values]
            return all(vals) if isinstance(n.op, ast.And) else any(vals)
        if isinstance(n, ast.UnaryOp) and isinstance(n.op, ast.Not):
            return not expr(n.operand)
        if isinstance(n, ast.IfExp):
            return expr(n.body) if expr(n.test) else expr(n.orelse)
        if isinstance(n, ast.Subscript):
            v = expr(n.value)
            if isinstance(n.slice, ast.Slice):
                lo = expr(n.slice.lower) if n.slice.lower else None
                hi = expr(n.slice.upper) if n.slice.upper else None
                return v[lo:hi]
            try:
                return v[expr(n.slice)]
            except (IndexError, KeyError) as e:
                raise FoldError(f"subscript failed: {e!r}")
        if isinstance(n, ast.Dict):
            return {expr(k): expr(v) for k, v in zip(n.keys, n.values)}
        if isinstance(n, ast.Call):
            if isinstance(n.func, ast.Name) and n.func.id in ("len", "ord", "chr") and len(n.args) == 1:
                a = expr(n.args[0])
                return {"len": len, "ord": ord, "chr": chr}[n.func.id](a)
            if isinstance(n.func, ast.Attribute) and n.func.attr in _STR_METHODS:
                recv = expr(n.func.value)
                if isinstance(recv, str):
                    try:
                        return getattr(recv, n.func.attr)(*[expr(a) for a in n.args])
                    except ValueError as e:
                        raise FoldError(f"str.{n.func.attr} failed: {e!r}")
            if isinstance(n.func, ast.Attribute) and n.func.attr == "get":
                recv = expr(n.func.value)
                if isinstance(recv, dict):
                    return recv.get(*[expr(a) for a in n.args])
        raise FoldError(f"expression {ast.unparse(n)[:60]} outside the table-function subset")

    from .srcmodel import strip_doc
    r = block(strip_doc(fn.body))
    return r[1] if r else None
