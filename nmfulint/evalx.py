"""E4 small exact evaluators: linear terms over one symbol, threshold chains, Venn-region set algebra.

They interpret ASTs over abstract domains; they do not execute nmfu code and call no solver.
"""
import ast
from .core import AnalysisError


def linear(node_or_src, is_symbol):
    """Evaluate an int expression as a*N + b where N is any sub-expression for which is_symbol(src) holds.
    Returns (a, b) or None when the expression is not of that shape."""
    node = ast.parse(node_or_src, mode="eval").body if isinstance(node_or_src, str) else node_or_src

    def go(n):
        src = ast.unparse(n)
        if is_symbol(src):
            return (1, 0)
        if isinstance(n, ast.Constant) and isinstance(n.value, int) and not isinstance(n.value, bool):
            return (0, n.value)
        if isinstance(n, ast.BinOp) and isinstance(n.op, (ast.Add, ast.Sub)):
            l, r = go(n.left), go(n.right)
            if l is None or r is None:
                return None
            if isinstance(n.op, ast.Add):
                return (l[0] + r[0], l[1] + r[1])
            return (l[0] - r[0], l[1] - r[1])
        if isinstance(n, ast.BinOp) and isinstance(n.op, ast.Mult):
            l, r = go(n.left), go(n.right)
            if l is None or r is None:
                return None
            if l[0] == 0:
                return (l[1] * r[0], l[1] * r[1])
            if r[0] == 0:
                return (r[1] * l[0], r[1] * l[1])
            return None
        if isinstance(n, ast.UnaryOp) and isinstance(n.op, ast.USub):
            v = go(n.operand)
            return None if v is None else (-v[0], -v[1])
        if isinstance(n, ast.Call) and isinstance(n.func, ast.Name) and n.func.id in ("str", "int") and len(n.args) == 1:
            return go(n.args[0])
        return None
    return go(node)


def const_int(node):
    """Constant-fold an integer expression made of literals and << + - * ** (no names). None if not foldable."""
    if isinstance(node, ast.Constant) and isinstance(node.value, int) and not isinstance(node.value, bool):
        return node.value
    if isinstance(node, ast.BinOp):
        l, r = const_int(node.left), const_int(node.right)
        if l is None or r is None:
            return None
        if isinstance(node.op, ast.LShift):
            return l << r
        if isinstance(node.op, ast.Add):
            return l + r
        if isinstance(node.op, ast.Sub):
            return l - r
        if isinstance(node.op, ast.Mult):
            return l * r
        if isinstance(node.op, ast.Pow) and 0 <= r < 128:
            return l ** r
    if isinstance(node, ast.UnaryOp) and isinstance(node.op, ast.USub):
        v = const_int(node.operand)
        return None if v is None else -v
    return None


# ---------------------------------------------------------------------------------------------
# Venn-region evaluator: frozenset expressions over two generators A, B (4 regions -> 4-bit masks)
# regions: bit0 = A only, bit1 = A&B, bit2 = B only, bit3 = neither
A_MASK, B_MASK, U_MASK = 0b0011, 0b0110, 0b1111


class VClass:
    """A character class value: kind 'pos' (denotes S) or 'neg' (denotes complement of S), with S a region mask."""

    def __init__(self, kind, mask):
        self.kind, self.mask = kind, mask

    def denotes(self):
        return self.mask if self.kind == "pos" else (U_MASK & ~self.mask)

    def __repr__(self):
        return f"{self.kind}:{self.mask:04b}"


class VennEval:
    """Interprets the bodies of RegexCharClass / InvertedRegexCharClass methods over region masks."""

    def __init__(self, model):
        self.model = model

    def run_method(self, cls, meth, self_val, other_val=None, depth=0):
        if depth > 4:
            raise AnalysisError("Venn evaluator: delegation too deep")
        owner, fn = self.model.resolve_method(cls, meth)
        if fn is None:
            raise AnalysisError(f"anchor lost: {cls}.{meth}")
        env = {"self": self_val}
        params = [a.arg for a in fn.args.args]
        if len(params) > 1:
            env[params[1]] = other_val
        return self._block(fn.body, env, depth)

    def _block(self, stmts, env, depth):
        for st in stmts:
            if isinstance(st, ast.Expr) and isinstance(st.value, ast.Constant):
                continue
            if isinstance(st, ast.If):
                c = self._expr(st.test, env, depth)
                if not isinstance(c, bool):
                    raise AnalysisError(f"Venn evaluator: non-boolean test {ast.unparse(st.test)}")
                r = self._block(st.body if c else st.orelse, env, depth)
                if r is not _NO:
                    return r
                continue
            if isinstance(st, ast.Assign):
                val = self._expr(st.value, env, depth)
                t = st.targets[0]
                if isinstance(t, ast.Name):
                    env[t.id] = val
                elif isinstance(t, ast.Tuple) and isinstance(val, tuple) and len(val) == len(t.elts):
                    for e, v in zip(t.elts, val):
                        env[e.id] = v
                else:
                    raise AnalysisError("Venn evaluator: unsupported assignment")
                continue
            if isinstance(st, ast.Return):
                return self._expr(st.value, env, depth) if st.value is not None else None
            raise AnalysisError(f"Venn evaluator: unsupported statement {type(st).__name__} in class algebra")
        return _NO

    def _expr(self, n, env, depth):
        if isinstance(n, ast.Name):
            if n.id in env:
                return env[n.id]
            raise AnalysisError(f"Venn evaluator: unknown name {n.id}")
        if isinstance(n, ast.Constant):
            return n.value
        if isinstance(n, ast.Tuple):
            return tuple(self._expr(e, env, depth) for e in n.elts)
        if isinstance(n, ast.Attribute) and n.attr == "chars":
            v = self._expr(n.value, env, depth)
            if isinstance(v, VClass):
                return ("set", v.mask)
        if isinstance(n, ast.BinOp):
            l, r = self._expr(n.left, env, depth), self._expr(n.right, env, depth)
            if isinstance(l, tuple) and isinstance(r, tuple) and l[0] == "set" and r[0] == "set":
                if isinstance(n.op, ast.BitOr):
                    return ("set", l[1] | r[1])
                if isinstance(n.op, ast.BitAnd):
                    return ("set", l[1] & r[1])
                if isinstance(n.op, ast.Sub):
                    return ("set", l[1] & ~r[1] & U_MASK)
                if isinstance(n.op, ast.BitXor):
                    return ("set", l[1] ^ r[1])
        if isinstance(n, ast.Compare) and len(n.ops) == 1:
            l, r = self._expr(n.left, env, depth), self._expr(n.comparators[0], env, depth)
            op = n.ops[0]
            if isinstance(l, tuple) and l[0] == "set" and isinstance(r, tuple) and r[0] == "set":
                if isinstance(op, ast.LtE):
                    return (l[1] & ~r[1] & U_MASK) == 0
                if isinstance(op, ast.GtE):
                    return (r[1] & ~l[1] & U_MASK) == 0
                if isinstance(op, ast.Eq):
                    return l[1] == r[1]
            if isinstance(l, tuple) and l[0] == "len" and isinstance(r, int) and r == 256 and isinstance(op, ast.GtE):
                return l[1] == U_MASK      # `len(x) >= 256` read as "x is the universe"
        if isinstance(n, ast.UnaryOp) and isinstance(n.op, ast.Not):
            v = self._expr(n.operand, env, depth)
            if isinstance(v, tuple) and v[0] == "set":
                return v[1] == 0
            if isinstance(v, bool):
                return not v
        if isinstance(n, ast.Call):
            f = n.func
            if isinstance(f, ast.Name) and f.id == "isinstance" and len(n.args) == 2:
                v = self._expr(n.args[0], env, depth)
                if not isinstance(v, VClass) or not isinstance(n.args[1], ast.Name):
                    raise AnalysisError("Venn evaluator: isinstance on non-class value")
                cn = "InvertedRegexCharClass" if v.kind == "neg" else "RegexCharClass"
                return self.model.is_subclass(cn, n.args[1].id)
            if isinstance(f, ast.Name) and f.id in ("RegexCharClass", "InvertedRegexCharClass") and len(n.args) == 1:
                v = self._expr(n.args[0], env, depth)
                if isinstance(v, tuple) and v[0] == "set":
                    return VClass("neg" if f.id.startswith("Inverted") else "pos", v[1])
            if isinstance(f, ast.Name) and f.id == "len" and len(n.args) == 1:
                v = self._expr(n.args[0], env, depth)
                if isinstance(v, tuple) and v[0] == "set":
                    return ("len", v[1])
            if isinstance(f, ast.Attribute):
                recv = self._expr(f.value, env, depth)
                if isinstance(recv, tuple) and recv[0] == "set" and f.attr == "isdisjoint" and len(n.args) == 1:
                    o = self._expr(n.args[0], env, depth)
                    return (recv[1] & o[1]) == 0
                if isinstance(recv, VClass):
                    cn = "InvertedRegexCharClass" if recv.kind == "neg" else "RegexCharClass"
                    arg = self._expr(n.args[0], env, depth) if n.args else None
                    return self.run_method(cn, f.attr, recv, arg, depth + 1)
        raise AnalysisError(f"Venn evaluator: unsupported expression {ast.unparse(n)[:80]}")


_NO = object()
