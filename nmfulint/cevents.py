"""E6 C-line events: classify emitted template lines (with [[holes]]) into protocol events.

A line that mentions a tracked name but matches no classifier is an ANALYSIS-ERROR: new C idioms must be
taught to the checker, never skipped.
"""
import re
from .core import AnalysisError

H = r"\[\[(?:[^\[\]]|\[[^\[\]]*\])*\]\]"          # a hole (may contain one level of [] inside)
NAME = r"(?:" + H + r"|[A-Za-z_][A-Za-z_0-9]*)"     # identifier or hole


class Ev:
    __slots__ = ("kind", "a", "b", "c", "text")

    def __init__(self, kind, a=None, b=None, c=None, text=""):
        self.kind, self.a, self.b, self.c, self.text = kind, a, b, c, text

    def __repr__(self):
        args = ",".join(str(x) for x in (self.a, self.b, self.c) if x is not None)
        return f"{self.kind}({args})"


_P = []


def pat(rx, fn):
    _P.append((re.compile(r"^\s*" + rx + r"\s*$"), fn))


# --- state / control -------------------------------------------------------------------------
pat(r"state->state = \[\[STATEIDX\((.*)\)\]\];", lambda m: [Ev("SETSTATE", m.group(1))])
pat(r"state->state = (.*);", lambda m: [Ev("SETSTATE_RAW", m.group(1))])
pat(r"// terminating state", lambda m: [Ev("TERMINATING")])
pat(r"// fallthrough to terminate", lambda m: [Ev("FALL_TERMINATE")])
pat(r"\+\+\(\*start\);", lambda m: [Ev("ADV", "indirect")])
pat(r"\+\+start;", lambda m: [Ev("ADV", "direct")])
pat(r"if \(\+\+\(\*start\) == end\) return (\S+)_OK;", lambda m: [Ev("ADV", "indirect"), Ev("CMP_END", "indirect"), Ev("RET", "OK", "cond")])
pat(r"if \(\+\+start == end\) return (\S+)_OK;", lambda m: [Ev("ADV", "direct"), Ev("CMP_END", "direct"), Ev("RET", "OK", "cond")])
pat(r"if \(\(\*start\) == end\) return (\S+)_OK;", lambda m: [Ev("CMP_END", "indirect"), Ev("RET", "OK", "cond")])
pat(r"if \(\*start == end\) return (\S+)_OK;", lambda m: [Ev("CMP_END", "indirect"), Ev("RET", "OK", "cond")])
pat(r"if \(start == end\) return (\S+)_OK;", lambda m: [Ev("CMP_END", "direct"), Ev("RET", "OK", "cond")])
# entry test of feed(): an empty chunk changes nothing - FAIL stays FAIL (state is the fail state), otherwise OK
pat(r"if \((\*start|start|" + H + r") == end\) return state->state == \[\[STATEIDX\((.*)\)\]\] \? (\S+)_FAIL : (\S+)_OK;",
    lambda m: [Ev("CMP_END", {"*start": "indirect", "start": "direct"}.get(m.group(1), "entry")), Ev("RET_ENTRY_EMPTY", m.group(2))])
pat(r"if \((\*start|start|" + H + r") == end\) return state->state == (.*) \? (\S+)_FAIL : (\S+)_OK;",
    lambda m: [Ev("CMP_END", {"*start": "indirect", "start": "direct"}.get(m.group(1), "entry")), Ev("RET_ENTRY_EMPTY", m.group(2))])
pat(r"inval = \*\*start;", lambda m: [Ev("RELOAD", "indirect")])
pat(r"inval = \*start;", lambda m: [Ev("RELOAD", "direct")])
pat(r"uint8_t inval = \*\*start;", lambda m: [Ev("DECL", "inval"), Ev("RELOAD", "indirect")])
pat(r"uint8_t inval = \*start;", lambda m: [Ev("DECL", "inval"), Ev("RELOAD", "direct")])
pat(r"if \((" + H + r")\) return (?:" + H + r"|\w+)_(DONE|FAIL);", lambda m: [Ev("RET_IF_STATE_IN", m.group(1), m.group(2))])
# (F-128) end(): an action of the taken end transition left for a state that answers differently - re-dispatch there, end-of-input still pending
pat(r"if \((" + H + r")\) goto repeatswitch;", lambda m: [Ev("REDISPATCH_IF_STATE_IN", m.group(1))])
pat(r"return (?:" + H + r"|\w+)_(OK|FAIL|DONE);", lambda m: [Ev("RET", m.group(1))])
pat(r"return (?:" + H + r"|\w+)_(FINISH|YIELD)_(.*);", lambda m: [Ev("RET", m.group(1), None, m.group(2))])
pat(r"default: return (?:" + H + r"|\w+)_(\w+);", lambda m: [Ev("DEFAULT"), Ev("RET", m.group(1))])
pat(r"goto repeatswitch;", lambda m: [Ev("GOTO", "repeatswitch")])
pat(r"goto fall_(.*);", lambda m: [Ev("GOTO", "fall", m.group(1))])
pat(r"goto jpto_(.*);", lambda m: [Ev("GOTO", "jpto", m.group(1))])
pat(r"goto skipaction_(.*);", lambda m: [Ev("GOTO", "skipaction", m.group(1))])
pat(r"repeatswitch:", lambda m: [Ev("LABEL", "repeatswitch")])
pat(r"fall_(.*):", lambda m: [Ev("LABEL", "fall", m.group(1))])
pat(r"jpto_(.*):", lambda m: [Ev("LABEL", "jpto", m.group(1))])
pat(r"skipaction_(.*):;?", lambda m: [Ev("LABEL", "skipaction", m.group(1))])
pat(r"case (.*):", lambda m: [Ev("CASE", m.group(1))])
pat(r"switch \(state->state\) \{", lambda m: [Ev("SWITCH")])
# --- buffers -----------------------------------------------------------------------------------
pat(r"if \(!state->c\.(" + NAME + r")\) state->c\.(" + NAME + r") = malloc\((.*)\);",
    lambda m: [Ev("NULLGUARD", m.group(1)), Ev("MALLOC", m.group(2), m.group(3), "guarded")])
pat(r"state->c\.(" + NAME + r") = malloc\((.*)\);", lambda m: [Ev("MALLOC", m.group(1), m.group(2))])
pat(r"free\(state->c\.(" + NAME + r")\);", lambda m: [Ev("FREE", m.group(1))])
pat(r"state->c\.(" + NAME + r") = NULL;", lambda m: [Ev("NULLIFY", m.group(1))])
pat(r"if \(state->(" + NAME + r")_counter (==|>=|>|<|<=|!=) (.*)\) \{", lambda m: [Ev("GUARD_CAP", m.group(1), m.group(3), m.group(2))])
pat(r"state->c\.(" + NAME + r")\[state->(" + NAME + r")_counter\+\+\] = (.*);",
    lambda m: [Ev("WRITE", m.group(1), "counter++", m.group(3)), Ev("COUNTER_OF", m.group(2))])
pat(r"\(\(uint8_t \*\)(&?)state->c\.(" + NAME + r")\)\[state->(" + NAME + r")_counter\+\+\] = (.*);",
    lambda m: [Ev("WRITE", m.group(2), "counter++", m.group(4)), Ev("COUNTER_OF", m.group(3)), Ev("RAWVIEW", m.group(2), m.group(1))])
pat(r"state->c\.(" + NAME + r")\[state->(" + NAME + r")_counter\] = 0;",
    lambda m: [Ev("WRITE", m.group(1), "counter", "0"), Ev("COUNTER_OF", m.group(2))])
pat(r"\(\(uint8_t \*\)(&?)state->c\.(" + NAME + r")\)\[state->(" + NAME + r")_counter\] = 0;",
    lambda m: [Ev("WRITE", m.group(2), "counter", "0"), Ev("COUNTER_OF", m.group(3)), Ev("RAWVIEW", m.group(2), m.group(1))])
pat(r"state->c\.(" + NAME + r")\[0\] = 0;", lambda m: [Ev("WRITE", m.group(1), "0", "0")])
pat(r"if \(state->c\.(" + NAME + r")\) state->c\.(" + NAME + r")\[0\] = 0;",
    lambda m: [Ev("WRITE_IF_NONNULL", m.group(2), "0", "0") if m.group(1) == m.group(2) else Ev("OTHER")])
pat(r"memcpy\(state->c\.(" + NAME + r"), \"(.*)\", (.*)\);", lambda m: [Ev("MEMCPY", m.group(1), m.group(2), m.group(3))])
# append in two statements (F-103): the value is stored at the current length, the length is counted afterwards - events_of() merges the pair into the same
# WRITE(.., "counter++", ..) event the one-expression form produced and marks it c="split" (C11.s requires the split: the value may read that counter)
pat(r"state->c\.(" + NAME + r")\[state->(" + NAME + r")_counter\] = (.*);",
    lambda m: [Ev("WRITE", m.group(1), "counter@", m.group(3)), Ev("COUNTER_OF", m.group(2))])
pat(r"\(\(uint8_t \*\)(&?)state->c\.(" + NAME + r")\)\[state->(" + NAME + r")_counter\] = (.*);",
    lambda m: [Ev("WRITE", m.group(2), "counter@", m.group(4)), Ev("COUNTER_OF", m.group(3)), Ev("RAWVIEW", m.group(2), m.group(1))])
pat(r"state->(" + NAME + r")_counter\+\+;", lambda m: [Ev("COUNTER_INC", m.group(1))])
pat(r"state->(" + NAME + r")_counter = (.*);", lambda m: [Ev("SETCOUNTER", m.group(1), m.group(2))])
pat(r"state->c\.(" + NAME + r") = (.*);", lambda m: [Ev("SETOUT", m.group(1), m.group(2))])
# --- hooks -------------------------------------------------------------------------------------
pat(r"(" + NAME + r")_(" + NAME + r")_hook\(state, (.*)\);", lambda m: [Ev("HOOKCALL", "global", m.group(2), m.group(3))])
pat(r"\(state->(" + NAME + r")_hook\)\(state, (.*)\);", lambda m: [Ev("HOOKCALL", "perstate", m.group(1), m.group(2))])
pat(r"\(void\)\s*inval;\s*(?://.*)?", lambda m: [Ev("USE_INVAL")])
# --- function frames ---------------------------------------------------------------------------
pat(r"(?:" + H + r"|\w+)_result_t (?:" + H + r"|\w+)_(start|feed|end)\((.*)\)\s*\{", lambda m: [Ev("FUNCDEF", m.group(1), m.group(2))])
pat(r"(?:" + H + r"|\w+)_result_t (?:" + H + r"|\w+)_(start|feed|end)\((.*)\);", lambda m: [Ev("FUNCDECL", m.group(1), m.group(2))])
pat(r"void (?:" + H + r"|\w+)_free\((.*)\)\s*\{", lambda m: [Ev("FUNCDEF", "free", m.group(1))])
pat(r"void (?:" + H + r"|\w+)_free\((.*)\);", lambda m: [Ev("FUNCDECL", "free", m.group(1))])
pat(r"#define inval (\d+)", lambda m: [Ev("DEFINE_INVAL", m.group(1))])
pat(r"#undef inval", lambda m: [Ev("UNDEF_INVAL")])
pat(r"#include (.*)", lambda m: [Ev("INCLUDE", m.group(1))])
pat(r"#.*", lambda m: [Ev("PREPROC")])
# --- structure ---------------------------------------------------------------------------------
pat(r"\}", lambda m: [Ev("CLOSE")])
pat(r"else \{", lambda m: [Ev("ELSE")])
pat(r"if \((.*)\) \{", lambda m: [Ev("IF", m.group(1))])
pat(r"else if \((.*)\) \{", lambda m: [Ev("ELIF", m.group(1))])
pat(r"//.*", lambda m: [Ev("COMMENT")])
pat(r"", lambda m: [])

TRACKED = re.compile(r"\bstart\b|\binval\b|state->state|\bgoto\b|\breturn\b|\bmalloc\b|\bfree\b|_counter\b|\bmemcpy\b|\bstatic\b")


def classify(text, strict=True):
    for rx, fn in _P:
        m = rx.match(text)
        if m:
            evs = fn(m)
            for e in evs:
                e.text = text
            return evs
    if strict and TRACKED.search(text):
        raise AnalysisError(f"emitted C line uses a tracked name but matches no known idiom: {text!r}")
    return [Ev("OTHER", text=text)]


def events_of(items, strict=True):
    """Flat event list for a list of emitted items (Line / CallBlock / LoopBlock)."""
    from .emit import Line, CallBlock, LoopBlock
    out = []
    for it in items:
        if isinstance(it, Line):
            for e in classify(it.text(), strict):
                out.append(e)
        elif isinstance(it, CallBlock):
            out.append(Ev("CALLBLOCK", it.call.callee, tuple(it.call.args_src), text=it.text()))
        elif isinstance(it, LoopBlock):
            out.append(Ev("LOOP", it.iter_src, it, text=it.text()))
    return _merge_split_appends(out)


def _merge_split_appends(evs):
    """[WRITE(n, "counter@", v), COUNTER_OF(k), (RAWVIEW)?, COUNTER_INC(k)] -> [WRITE(n, "counter++", v, c="split"), COUNTER_OF(k), (RAWVIEW)?]: store at the
    current length, then count - the same effect as `buf[counter++] = v`. A store at the counter that is NOT followed by its increment stays "counter@" (and is
    then nobody's append: rules looking for the append do not find one)."""
    out = []
    i = 0
    while i < len(evs):
        e = evs[i]
        if e.kind == "WRITE" and e.b == "counter@":
            j = i + 1
            tail = []
            while j < len(evs) and evs[j].kind in ("COUNTER_OF", "RAWVIEW"):
                tail.append(evs[j])
                j += 1
            cof = next((t.a for t in tail if t.kind == "COUNTER_OF"), None)
            if j < len(evs) and evs[j].kind == "COUNTER_INC" and evs[j].a == cof:
                # the value stays in .c as before; the split mark travels in a sibling event
                out.append(Ev("WRITE", e.a, "counter++", e.c, text=e.text))
                out.extend(tail)
                out.append(Ev("APPEND_SPLIT", e.a, text=evs[j].text))
                i = j + 1
                continue
        out.append(e)
        i += 1
    return out


def kinds(evs):
    return [e.kind for e in evs]
