"""Core: run context, obligations, findings, verdict protocol (DESIGN.md section 2)."""
import ast, json, os, sys, time, hashlib, re

REPO_FILE = os.environ.get("NMFU_SOURCE", "/repo/nmfu.py")
VERIF_DIR = os.path.dirname(os.path.dirname(os.path.abspath(__file__)))


class AnalysisError(Exception):
    """Anchor lost / unknown idiom / bound exceeded: the analysis must be re-triaged (exit 2)."""


def norm_src(node):
    """Normalised source text of an ast node (position independent)."""
    if isinstance(node, str):
        return node
    return ast.unparse(node)


class Violation:
    def __init__(self, rule, function, construct, message, extra=None, line=None):
        self.rule = rule
        self.function = function
        self.construct = construct
        self.message = message
        self.extra = extra or {}
        self.line = line

    def key(self):
        return (self.rule, self.function, self.construct)

    def as_dict(self):
        d = {"rule": self.rule, "function": self.function, "construct": self.construct,
             "message": self.message, "file": REPO_FILE}
        if self.line is not None:
            d["line"] = self.line
        if self.extra:
            d["extra"] = self.extra
        return d


class Report:
    """Collects obligations (rule instances) and violations for one property run."""

    def __init__(self, prop):
        self.prop = prop
        self.obligations = 0
        self.discharged = 0
        self.instances = {}        # rule -> count
        self.nontrivial = set()    # distinct nontrivial instance keys
        self.samples = []
        self.violations = []
        self.analysed = {}
        self.assumptions = []
        self.notes = []
        self.rules_run = []

    # -- bookkeeping -------------------------------------------------------------------
    def count(self, what, n=1):
        self.analysed[what] = self.analysed.get(what, 0) + n

    def rule(self, rule_id, text):
        self.rules_run.append({"rule": rule_id, "text": text})

    def assume(self, text):
        if text not in self.assumptions:
            self.assumptions.append(text)

    def ok(self, rule, function, construct, detail=None, nontrivial=True, sample=False):
        self.obligations += 1
        self.discharged += 1
        self.instances[rule] = self.instances.get(rule, 0) + 1
        if nontrivial:
            self.nontrivial.add((rule, function, construct))
        if sample or len([s for s in self.samples if s["rule"] == rule]) < 2:
            s = {"rule": rule, "function": function, "construct": construct, "verdict": "discharged"}
            if detail is not None:
                s["detail"] = detail
            if len(self.samples) < 60:
                self.samples.append(s)

    def bulk_ok(self, rule, n):
        """n further discharged instances of a rule (already summarised by one sample)."""
        self.obligations += n
        self.discharged += n
        self.instances[rule] = self.instances.get(rule, 0) + n

    def bad(self, rule, function, construct, message, extra=None, line=None):
        self.obligations += 1
        self.instances[rule] = self.instances.get(rule, 0) + 1
        self.nontrivial.add((rule, function, construct))
        for v in self.violations:
            if v.key() == (rule, function, construct):
                v.extra["more_instances"] = v.extra.get("more_instances", 0) + 1
                return
        self.violations.append(Violation(rule, function, construct, message, extra, line))

    def check(self, cond, rule, function, construct, message, detail=None, extra=None, line=None):
        if cond:
            self.ok(rule, function, construct, detail)
        else:
            self.bad(rule, function, construct, message, extra, line)
        return cond

    def floor(self, rule, minimum):
        """A rule that matches fewer instances than confirmed by hand passes vacuously: analysis error."""
        n = self.instances.get(rule, 0)
        if n < minimum:
            raise AnalysisError(f"rule {rule}: matched {n} instance(s), floor is {minimum} - anchor lost or idiom changed")


def load_known_findings():
    p = os.path.join(VERIF_DIR, "KNOWN_FINDINGS.json")
    if not os.path.exists(p):
        return {"open": [], "fixed": []}
    with open(p) as f:
        return json.load(f)


def finding_matches(entry, v):
    if entry.get("rule") != v.rule:
        return False
    if entry.get("function") not in (None, v.function):
        return False
    pre = entry.get("construct_prefix")
    if pre is not None and not v.construct.startswith(pre):
        return False
    pat = entry.get("construct")
    if pat is None:
        return True
    return pat == v.construct


def finish(prop, tier, rep, t0, explanation, not_decided, engines):
    """Apply the known-findings file, write evidence, print verdict lines, return exit code."""
    kf = load_known_findings()
    open_entries = [e for e in kf.get("open", []) if e.get("property") == prop]
    unexpected, known = [], []
    for v in rep.violations:
        m = [e for e in open_entries if finding_matches(e, v)]
        if m:
            known.append((m[0], v))
        else:
            unexpected.append(v)
    seed = int(os.environ.get("VERIF_SEED", "0") or 0)
    ev_dir = os.environ.get("NMFU_EVIDENCE_DIR") or os.path.join(VERIF_DIR, "evidence")
    os.makedirs(ev_dir, exist_ok=True)
    cov = {
        "explanation": explanation,
        "not_decided": not_decided,
        "obligations": rep.obligations,
        "discharged": rep.discharged,
        "evaluations": max(rep.obligations, 1),
        "distinct_nontrivial": len(rep.nontrivial),
        "rule": "one evaluation per rule instance (a resolved construct, table row or emission path a rule is "
                "applied to); non-trivial = involves at least one branch atom, table entry or resolved call site; "
                "distinct by (rule, function, normalised construct)",
        "rules": rep.rules_run,
        "instances_per_rule": rep.instances,
        "analysed": rep.analysed,
        "samples": rep.samples[:40],
        "known_findings_matched": [dict(id=e.get("id"), rule=v.rule, function=v.function, construct=v.construct) for e, v in known],
        "engines": engines,
        "source_sha256": hashlib.sha256(open(REPO_FILE, "rb").read()).hexdigest(),
        "exhaustive": True,
    }
    if rep.notes:
        cov["notes"] = rep.notes
    ev = {
        "property_id": prop, "tier": tier, "seed": seed, "level": "other",
        "coverage": cov,
        "assumptions": rep.assumptions,
        "wall_s": round(time.time() - t0, 3),
        "violations": len(unexpected),
    }
    with open(os.path.join(ev_dir, f"{prop}.json"), "w") as f:
        json.dump(ev, f, indent=1, sort_keys=False, default=str)
    seen = set()
    for e, v in known:
        k = e.get("id") or (v.rule, v.function, v.construct)
        if k in seen:
            continue
        seen.add(k)
        print(f"KNOWN-FINDING: property={prop} {e.get('id','')} rule={v.rule} at {v.function}: {e.get('what', v.message)}")
    if unexpected:
        replay = os.path.join(ev_dir, f"{prop}.violations.json")
        with open(replay, "w") as f:
            json.dump([v.as_dict() for v in unexpected], f, indent=1, default=str)
        for v in unexpected[:12]:
            loc = f"{REPO_FILE}:{v.line}" if v.line else REPO_FILE
            msg = f"  violation rule={v.rule} at {loc} in {v.function} [{v.construct}]: {v.message}"
            print(msg if len(msg) < 420 else msg[:417] + "...")
        if len(unexpected) > 12:
            print(f"  ... and {len(unexpected) - 12} more (see replay file)")
        print(f"VIOLATION property={prop} replay={replay}")
        return 1
    print(f"OK property={prop} tier={tier} obligations={rep.obligations} discharged={rep.discharged} "
          f"known_findings={len(seen)} wall_s={ev['wall_s']}")
    return 0
