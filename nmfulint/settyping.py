"""Set-typing for C20.b: which values are hash-ordered (set / frozenset, hashed by object identity or PYTHONHASHSEED),
and where their iteration order is consumed."""
import ast
from .srcmodel import walk_no_nested

SET_CTORS = {"set", "frozenset"}
SET_METHODS_RETURNING_SET = {"union", "intersection", "difference", "symmetric_difference", "copy"}


class SetTyping:
    def __init__(self, model):
        self.model = model
        self.set_funcs = set()      # method / function names (unqualified) that return a set
        self.set_attrs = set()      # attribute names assigned a set somewhere (self.x = set(..))
        self.param_sets = {}        # (func unqualified name, param index) -> True when some call site passes a set
        self._fixpoint()

    # ------------------------------------------------------------------------------------------
    def is_set_expr(self, node, env):
        if isinstance(node, (ast.Set, ast.SetComp)):
            return True
        if isinstance(node, ast.Name):
            return env.get(node.id, False)
        if isinstance(node, ast.Call):
            f = node.func
            if isinstance(f, ast.Name) and f.id in SET_CTORS:
                return True
            if isinstance(f, ast.Attribute):
                if f.attr in SET_METHODS_RETURNING_SET and self.is_set_expr(f.value, env):
                    return True
                if f.attr in self.set_funcs:
                    return True
            if isinstance(f, ast.Name) and f.id in self.set_funcs:
                return True
        if isinstance(node, ast.BinOp) and isinstance(node.op, (ast.BitOr, ast.BitAnd, ast.Sub, ast.BitXor)):
            return self.is_set_expr(node.left, env) or self.is_set_expr(node.right, env)
        if isinstance(node, ast.Attribute) and node.attr in self.set_attrs:
            return True
        if isinstance(node, ast.IfExp):
            return self.is_set_expr(node.body, env) or self.is_set_expr(node.orelse, env)
        return False

    def local_env(self, fn, qual=None):
        """name -> is set-typed, flow-insensitive within one function (a name ever assigned a set counts as a set)."""
        env = {}
        name = fn.name
        params = [a.arg for a in fn.args.args]
        for i, p in enumerate(params):
            if self.param_sets.get((name, i)):
                env[p] = True
        changed = True
        while changed:
            changed = False
            for n in ast.walk(fn):
                if isinstance(n, ast.Assign) and len(n.targets) == 1 and isinstance(n.targets[0], ast.Name):
                    if self.is_set_expr(n.value, env) and not env.get(n.targets[0].id):
                        env[n.targets[0].id] = True
                        changed = True
                if isinstance(n, ast.AugAssign) and isinstance(n.target, ast.Name) and isinstance(n.op, (ast.BitOr, ast.BitAnd, ast.Sub)):
                    if self.is_set_expr(n.value, env) and not env.get(n.target.id):
                        env[n.target.id] = True
                        changed = True
        return env

    def _fixpoint(self):
        model = self.model
        for _ in range(6):
            before = (len(self.set_funcs), len(self.set_attrs), len(self.param_sets))
            for q, fn in model.functions.items():
                env = self.local_env(fn)
                for n in walk_no_nested(fn):
                    if isinstance(n, ast.Return) and n.value is not None and self.is_set_expr(n.value, env):
                        self.set_funcs.add(fn.name)
                    if isinstance(n, ast.Assign) and len(n.targets) == 1 and isinstance(n.targets[0], ast.Attribute) and isinstance(n.targets[0].value, ast.Name) \
                            and n.targets[0].value.id == "self" and self.is_set_expr(n.value, env):
                        self.set_attrs.add(n.targets[0].attr)
                    if isinstance(n, ast.Call):
                        cname = n.func.attr if isinstance(n.func, ast.Attribute) else (n.func.id if isinstance(n.func, ast.Name) else None)
                        if cname is None:
                            continue
                        off = 1 if isinstance(n.func, ast.Attribute) else 0
                        targets = [f for qq, f in model.functions.items() if f.name == cname]
                        if not targets:
                            continue
                        for i, a in enumerate(n.args):
                            if self.is_set_expr(a, env):
                                for t in targets:
                                    has_self = bool(t.args.args) and t.args.args[0].arg in ("self", "cls")
                                    self.param_sets[(cname, i + (1 if has_self and off else 0))] = True
            if (len(self.set_funcs), len(self.set_attrs), len(self.param_sets)) == before:
                break

    # ------------------------------------------------------------------------------------------
    def instances(self, q, fn):
        """Order-revealing consumptions of set-typed values in fn: list of dicts(kind, node, src, ...)."""
        env = self.local_env(fn)
        out = []

        def settyped_iter(node):
            if self.is_set_expr(node, env):
                return True
            if isinstance(node, ast.Call) and isinstance(node.func, ast.Name) and node.func.id in ("list", "tuple", "reversed", "enumerate", "iter") and node.args:
                return settyped_iter(node.args[0])
            if isinstance(node, ast.Call) and ast.unparse(node.func) in ("itertools.combinations", "itertools.chain", "itertools.permutations") and node.args:
                return any(settyped_iter(a) for a in node.args)
            return False

        for n in walk_no_nested(fn):
            if isinstance(n, ast.For) and settyped_iter(n.iter):
                out.append({"kind": "for", "node": n, "src": f"for {ast.unparse(n.target)} in {ast.unparse(n.iter)}"})
            elif isinstance(n, (ast.ListComp, ast.GeneratorExp, ast.DictComp)) and any(settyped_iter(g.iter) for g in n.generators):
                out.append({"kind": "comp", "node": n, "src": ast.unparse(n)[:90]})
            elif isinstance(n, ast.Call):
                f = n.func
                if isinstance(f, ast.Name) and f.id in ("list", "tuple") and n.args and self.is_set_expr(n.args[0], env):
                    out.append({"kind": "list", "node": n, "src": ast.unparse(n)[:90]})
                elif isinstance(f, ast.Name) and f.id == "next" and n.args and isinstance(n.args[0], ast.Call) and ast.unparse(n.args[0].func) == "iter" and \
                        n.args[0].args and self.is_set_expr(n.args[0].args[0], env):
                    out.append({"kind": "next", "node": n, "src": ast.unparse(n)[:90]})
                elif isinstance(f, ast.Name) and f.id in ("max", "min") and n.args and self.is_set_expr(n.args[0], env):
                    out.append({"kind": f.id, "node": n, "src": ast.unparse(n)[:90]})
                elif isinstance(f, ast.Attribute) and f.attr == "pop" and not n.args and self.is_set_expr(f.value, env):
                    out.append({"kind": "pop", "node": n, "src": ast.unparse(n)[:90]})
        return out
