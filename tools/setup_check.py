#!/opt/veriftools/pyvenv/bin/python
"""setup_cmd: verify the tooling interpreter and that lark / networkx import (pure wheels as fallback). Builds nothing."""
import sys, glob
ok = True
for mod in ("lark", "networkx"):
    try:
        __import__(mod)
    except ImportError:
        for w in glob.glob(f"/opt/veriftools/wheels/{mod}-*.whl"):
            sys.path.insert(0, w)
        try:
            __import__(mod)
        except ImportError:
            print("missing module", mod)
            ok = False
import ast
print("python", sys.version.split()[0], "lark/networkx ok" if ok else "DEPENDENCY MISSING")
sys.exit(0 if ok else 1)
