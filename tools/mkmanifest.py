#!/opt/veriftools/pyvenv/bin/python
"""Regenerate /verif/MANIFEST.json from the table below (claimed properties) - keeps the manifest valid and in step."""
import json, os, sys, importlib
HERE = os.path.dirname(os.path.dirname(os.path.abspath(__file__)))
sys.path.insert(0, HERE)
PY = "/opt/veriftools/pyvenv/bin/python"

# property -> (technique, level text, level note)
CLAIMS = {}
NOT_APPLICABLE = {}
exec(open(os.path.join(HERE, "tools", "claims.py")).read())

props = [json.loads(l) for l in open(os.path.join(HERE, "properties.jsonl"))]
checks = []
for p in props:
    pid = p["id"]
    if pid not in CLAIMS:
        continue
    tech, text, note = CLAIMS[pid]
    checks.append({
        "property_id": pid,
        "quick_cmd": f"{PY} check.py --property {pid} --tier quick",
        "thorough_cmd": f"{PY} check.py --property {pid} --tier thorough",
        "evidence_file": f"/verif/evidence/{pid}.json",
        "replay_cmd_template": f"{PY} check.py --property {pid} --tier quick  # replay file {{path}} lists the violating constructs",
        "engine": "nmfulint",
        "level_claimed": {"category": "other", "text": text, "design_ref": f"DESIGN.md section 3, {pid}"},
        "level_note": note,
        "technique": tech,
    })
na = [{"property_id": p["id"], "reason": NOT_APPLICABLE.get(p["id"], "check not yet built in this round (static rules designed in DESIGN.md section 3)")}
      for p in props if p["id"] not in CLAIMS]
man = {
    "version": 1,
    "setup_cmd": f"{PY} tools/setup_check.py",
    "hooks": {
        "guard": "NMFU_VERIF",
        "enable": "none needed: static analysis reads /repo/nmfu.py as text; no instrumentation commits exist",
        "baseline_off_cmd": "cd /repo && /venv/bin/python -m pytest -ra -q -p no:cacheprovider --timeout=900 --continue-on-collection-errors",
        "source_commits": [],
        "add_only": True,
    },
    "engines": [
        {"name": "nmfulint", "path": "/verif/nmfulint", "serves_properties": sorted(CLAIMS),
         "kind_free_text": "repository-specific static analysis over nmfu.py: Python AST model (classes/MRO/call graph), the embedded Lark grammar loaded as data, and an emission-path enumerator over the C templates of CodegenCtx with typestate rules over emitted lines; no execution of nmfu, no solver"},
    ],
    "checks": checks,
    "not_applicable": na,
    "notes": "All checks are static analysis (family: static analysis). Exit 0 held / 1 VIOLATION / 2 ANALYSIS-ERROR (anchor lost, unknown idiom). Known genuine defects are listed in /verif/KNOWN_FINDINGS.json. See DESIGN.md. Input normalisation (round 6): before the rules run, behaviour-preserving rewrites of the analysed tree are restored to the reference tree's spelling (nmfulint/canon.py: condition / control-shape / temporary / loop / name / helper equivalences, each with checked side conditions; one aliasing assumption stated in DESIGN 9.9), so that clean-up edits do not raise alarms; measured silent on 74 of 95 agent-written refactorings.",
}
json.dump(man, open(os.path.join(HERE, "MANIFEST.json"), "w"), indent=1)
try:
    import jsonschema
    jsonschema.validate(man, json.load(open("/root/.vp/MANIFEST.schema.json")))
    print("MANIFEST.json valid;", len(checks), "checks,", len(na), "not_applicable")
except ImportError:
    print("written (jsonschema not available)")
