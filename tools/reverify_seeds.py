#!/opt/veriftools/pyvenv/bin/python
"""Re-verify every live seeded change against /repo HEAD: in a scratch worktree the demo must exit 0 on the clean tree and non-zero with the
patch applied (`--suite`: also run the pinned test suite with the patch). Repairs of nmfu can silently neutralise a seed or invalidate its demo.
usage: reverify_seeds.py [--suite] [seed-id ...]"""
import concurrent.futures as cf, glob, os, shutil, subprocess, sys
HERE = os.path.dirname(os.path.dirname(os.path.abspath(__file__)))
SUITE = "--suite" in sys.argv

def sh(c, cwd=None, timeout=1800):
    r = subprocess.run(c, shell=True, cwd=cwd, capture_output=True, text=True, timeout=timeout)
    return r.returncode, r.stdout + r.stderr

def one(sid):
    d = os.path.join(HERE, "seeded", sid)
    wt = f"/tmp/reverify/{sid}"
    sh(f"git -C /repo worktree remove --force {wt}"); shutil.rmtree(wt, ignore_errors=True)
    rc, out = sh(f"git -C /repo worktree add --detach {wt} HEAD")
    if rc:
        return sid, "worktree failed"
    try:
        os.makedirs(wt + ".tmp", exist_ok=True)      # demos that use fixed names under the temp directory must not meet each other
        os.environ.setdefault("PYTHONDONTWRITEBYTECODE", "1")
        rc0, _ = sh(f"TMPDIR={wt}.tmp /venv/bin/python {d}/demo.py", cwd=wt, timeout=900)
        rcp, outp = sh(f"patch -s -p1 < {d}/patch.diff", cwd=wt)
        if rcp:
            return sid, "patch does not apply: " + outp[-100:]
        rc1, _ = sh(f"TMPDIR={wt}.tmp /venv/bin/python {d}/demo.py", cwd=wt, timeout=900)
        res = f"clean rc={rc0} changed rc={rc1}"
        if SUITE:
            _, ot = sh("/venv/bin/python -m pytest -q -p no:cacheprovider --timeout=900 -n 2 2>&1 | tail -1", cwd=wt)
            res += " suite: " + ot.strip()
        ok = rc0 == 0 and rc1 != 0 and (not SUITE or "138 passed" in res)
        return sid, ("ok " if ok else "PROBLEM ") + res
    finally:
        sh(f"git -C /repo worktree remove --force {wt}")
        shutil.rmtree(wt + ".tmp", ignore_errors=True)

def main():
    ids = [a for a in sys.argv[1:] if not a.startswith("--")] or sorted(os.path.basename(p) for p in glob.glob(os.path.join(HERE, "seeded", "C*-*")))
    os.makedirs("/tmp/reverify", exist_ok=True)
    bad = 0
    with cf.ThreadPoolExecutor(8) as ex:
        for sid, res in ex.map(one, ids):
            if not res.startswith("ok"):
                bad += 1
                print(sid, res)
    print(f"{len(ids) - bad}/{len(ids)} seeds verified against HEAD")
    shutil.rmtree("/tmp/reverify", ignore_errors=True)
main()
