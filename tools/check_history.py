import sys, json, importlib, subprocess
sys.path.insert(0,'/verif')
from nmfulint import core
from nmfulint.context import Ctx
old = subprocess.run(['git','-C','/repo','show', subprocess.run(['git','-C','/repo','rev-list','--max-parents=0','HEAD'],capture_output=True,text=True).stdout.split()[0]+':nmfu.py'],capture_output=True,text=True).stdout
kf = json.load(open('/verif/KNOWN_FINDINGS.json'))
byprop = {}
for e in kf['fixed']:
    byprop.setdefault(e['property'], []).append(e)
for prop, es in sorted(byprop.items()):
    mod = importlib.import_module(f"nmfulint.rules.{prop.lower()}")
    rep = core.Report(prop)
    try:
        mod.run(Ctx(old), rep, "quick")
    except core.AnalysisError as ex:
        print(prop, "ANALYSIS-ERROR on pinned tree:", str(ex)[:150]); continue
    rules = {v.rule for v in rep.violations}
    for e in es:
        want = [r.strip() for r in e['rule'].split('/')]
        if not any(w in rules for w in want):
            print("SILENT", e['id'], prop, e['rule'])
print("done")
