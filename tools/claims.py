# property -> (technique, level text, level note).  exec'd by mkmanifest.py
CLAIMS["C10"] = (
    "emission-path enumeration of the C templates + typestate rules over emitted lines",
    "Static, generator-level: every path through _generate_transition_body / feed / end / switch-body templates is enumerated (forking on each "
    "branch atom) and its emitted event sequence is checked against the result-code / start-pointer protocol (one advance, OK only at "
    "chunk end, reload through the same pointer, DONE without advancing, FAIL arms absorbing, strict-done only degrades immediate DONE, "
    "DONE tail iff accepting). Because it is a fact about the generator it holds for every program and option set; it does not decide "
    "where DFA-level constructs (yield proxies, tokenizer loops) place their yields.",
    "Trusted: the line classifier of nmfulint/cevents.py (unknown lines touching tracked names abort the analysis); the paper argument from "
    "the row table to the statement; DFA-level facts (which transitions exist) are assumptions, listed in evidence.")
