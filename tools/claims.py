# property -> (technique, level text, level note).  exec'd by mkmanifest.py
CLAIMS["C10"] = (
    "emission-path enumeration of the C templates + typestate rules over emitted lines",
    "Static, generator-level: every path through _generate_transition_body / feed / end / switch-body templates is enumerated (forking on each "
    "branch atom) and its emitted event sequence is checked against the result-code / start-pointer protocol (one advance, OK only at "
    "chunk end, reload through the same pointer, DONE without advancing, FAIL arms absorbing, strict-done only degrades immediate DONE, "
    "DONE tail iff accepting). Because it is a fact about the generator it holds for every program and option set; it does not decide "
    "where DFA-level constructs (yield proxies, tokenizer loops) place their yields.",
    "Trusted: the line classifier of nmfulint/cevents.py (unknown lines touching tracked names abort the analysis); the paper argument from "
    "the row table to the statement; DFA-level facts (which transitions exist) are assumptions, listed in evidence.")
CLAIMS["C02"] = (
    "emission-path enumeration of the C templates + ordering/typestate rules (state store, advance, reload)",
    "Static, generator-level: chunk resumption lives only in the emitted C. On every emission path of the transition body the state store "
    "precedes actions and returns; a consuming in-call continuation has exactly one advance, compare-with-end -> OK, reload of `inval` through "
    "the advanced pointer, then the jump (so one-byte-per-call and one-call feeds see the same byte); early/late advance are complementary; "
    "no template declares a local other than `inval` or static/file-scope storage; the three users of may_return_early agree. Decides the "
    "per-transition mechanism for all programs and options; does not decide DFA-level proxy-state construction for yields.",
    "Trusted: line classifier (unknown tracked lines abort); that a DFA state plus the output variables is the whole parser state (true by "
    "construction of the struct). Not decided: InterruptableActionNode's proxy states.")
CLAIMS["C03"] = (
    "emission-path enumeration + capacity/typestate rules over buffer templates, linear-term evaluation of size expressions",
    "Static, generator-level: every buffer read/write in generated parsers is one of a dozen templates. Decided for every valuation of the "
    "generator's atoms: capacity test dominates the byte write (else-arm, [counter++], bound = usable size), terminator iff terminated, "
    "constant copies refused when too long with one length measure for check/memcpy/counter, latin-1 only, on-demand pointers never "
    "dereferenced while possibly NULL nor after free, free()+NULL pairing and coverage, malloc sizes, bounds-checked index template, raw "
    "byte view takes the address, counter/state widths. Found and repaired F-01, F-02, F-05, F-06 (see KNOWN_FINDINGS.json).",
    "Trusted: line classifier; flag implication ON_DEMAND => DYNAMIC (checked under C19/C11). Not decided: UB inside user arithmetic, "
    "input-chunk reads beyond the pointer protocol (C10).")
CLAIMS["C11"] = (
    "emission-path enumeration of header/source templates + def/use, guard-agreement and naming-agreement rules",
    "Static, generator-level: 'compiles' for all programs is a property of the templates. Decided: every goto kind that can be emitted in feed/end "
    "has a label of that kind there (and the label side ranges over the transitions of every emitted state); end/free/hooks declared and defined under "
    "the same flag atoms with identical signatures; malloc/free only under atoms implying DYNAMIC_MEMORY (stdlib.h, free()); identifiers spelled by one "
    "expression on declaring and using side; end() pointer-free with inval #defined; width table refusal; inval referenced when declared. "
    "Found and repaired F-03, F-07, F-08, F-13, F-21.",
    "Trusted: line classifier; gcc's notion of valid C for the skeleton is assumed, not modelled (no C parser available offline). Not decided: C++ "
    "validity beyond guard pairing, user raw type names, per-program label numbering.")
CLAIMS["C12"] = (
    "template bisimulation modulo a representation map over enumerated emission paths; who-reads check on representation flags",
    "Static, generator-level and relational: for each representation option, every pair of emission units (template paths / loop-body "
    "alternatives) that agree on all other atoms must emit equal line sequences after the option's normalisation map (pointer mode, hook call "
    "form, char/uint8_t, heap allocation events, header-only lines). Representation flags are confined to code generation (never parse/DFA "
    "stages), header-only flags to header generators, zero-length support to the feed-entry test. Holds for all programs because it is a fact "
    "about the templates; the range-collapse option (arithmetic over code points) is not decided.",
    "Trusted: the normalisation maps in rules/c12.py (each rewrites only the construct the option is documented to change); flag resolution "
    "invariants (implications/exclusions) used to discard impossible valuations are checked under C19.")
CLAIMS["C17"] = (
    "dispatch/guard analysis of the front end + emission-path rules over end() templates + builder-chain recognition for End transitions",
    "Static: the `end` pattern is gated by EOF_SUPPORT and end() exists under the same atom; the byte-test generator never compares against End; "
    "inverted classes and the wildcard route (excluded | End) to the no-match path unconditionally and EndMatch consumes on End only; end()'s "
    "per-state template takes state[End], renders it with from_end=True and returns DONE iff the state reached is accepting, never following an "
    "error-handling move out of an accepting state; end-context transition bodies obey their rows and their gotos have labels. Generator-level facts "
    "for all programs; which actions sit on End transitions is a DFA-level fact and not decided. Found and repaired F-15, F-23 (and F-03 under C11).",
    "Trusted: line classifier; DFState.__getitem__'s Else fallback (checked structurally). Not decided: DFA-level placement of End transitions/actions.")
CLAIMS["C19"] = (
    "effect/phase classification of load_commandline_flags + literal flag-table invariants",
    "Static and essentially complete for this property: the resolution is a straight-line algorithm over literal tables. Decided: phase order of "
    "writes to the flag map (reset, level loop, explicit overrides, implication fixpoint, exclusion pass; argument parsing never writes it), "
    "cumulative levels, table invariants T1-T5 that make 'implied flags on / exclusive flags never both on / explicit both-on raises' follow from "
    "the phases, unconditional implication fixpoint, exclusion raise condition, guarded conversions of user text, implications codegen relies on. "
    "Found and repaired F-17 (malformed -O/-d/--flag values).",
    "Trusted: the paper argument from phases + invariants to the statement (rule docstrings / DESIGN.md C19).")
CLAIMS["C14"] = (
    "grammar-layer extraction vs C precedence table + parenthesisation/def-use rules over the expression renderer + enum/terminal agreement",
    "Static, essentially complete for the *structure* clause by induction over expression trees: the embedded grammar's operator layers equal C's "
    "precedence/associativity for these operators (deviations only reject); the renderer parenthesises every recursive rendering, so the emitted C tree "
    "is the nmfu tree; operator tokens agree from terminal language through enum values to emitted text; !x / -x / int-as-condition desugarings; "
    "declared width/sign select exactly that C type; all four use contexts share the one renderer. The arithmetic C performs on that tree is the "
    "stated oracle (C standard) and is not re-decided.",
    "Trusted: C11 6.5 precedence table encoded in rules/c14.py; shape recognisers for the parser arms (an unrecognised rewrite is reported, not skipped).")
CLAIMS["C15"] = (
    "table extraction and agreement rules over the literal decoders + finite-domain folding of the 256-entry case table",
    "Static: escape tables compared with the fixed C oracle and with each other, totality of the escape decoder over what the STRING terminal admits, "
    "\\xHH slicing/base/validation, prefix/base pairing and sign of the integer decoder, binary-string decoding and its error conversion, latin-1 at "
    "every literal->bytes site, escaping of backslash/quote and self-delimiting escapes in emitted C literals, ord()-based byte tests, and the "
    "case-folding function folded over all 256 inputs. Decides the tables and decoders for all literals; not end-to-end bytes through DFA construction. "
    "Found and repaired F-09, F-14, F-22 (and F-02 under C03).",
    "Trusted: the shape recognisers for the decoders (unrecognised rewrites are reported). The case table is decided by constant folding a loop-free "
    "pure function over its finite domain, stated as such in DESIGN.md.")
CLAIMS["C07"] = (
    "exact Venn-region evaluation of the character-class algebra + grammar/dispatch/table agreement rules; language equality itself not decided",
    "Static, necessary conditions only: the class algebra (isdisjoint/split/union/empty/invert in all kind combinations) is decided exactly for all "
    "sets by interpreting the method bodies over the Boolean algebra of Venn regions (all 16 inhabitation patterns); class-escape and quantifier tables "
    "agree with the grammar and ASCII; parse-tree dispatches are total over the grammar's regex labels (text and binary) and the NFA builder covers "
    "every node class; inverted classes exclude end-of-input; repeat desugaring shapes; inclusive set ranges; atom decoding. Passing says the "
    "mechanism is wired as designed, NOT that Thompson/subset/minimisation/lowering produce the right language - that is not decided by this family.",
    "Trusted: Venn evaluator (evalx.py) and its reading of `len(x) >= 256` as 'x is the universe'. Not decided: NFA->DFA->minimise->lower pipeline.")
CLAIMS["C13"] = (
    "grammar/dispatch/table agreement rules + statement-order (push/pop pairing) rules over the macro machinery; expansion equivalence not decided",
    "Static, necessary conditions only: declaration-kind and call-site kind tables agree with the grammar and with what the consumers of each argument "
    "kind accept; kind and arity checks are unconditional and precede binding; frame push / instance activation bracket exactly the body expansion; "
    "lookup scans the whole frame stack innermost-first before globals; early binding is applied to exactly the identifier kinds; substituted expression "
    "arguments keep the destination type; expansion depth is bounded by a diagnosed error. Passing says the argument machinery is wired as designed, not "
    "that a macro call behaves like its hand-inlined body - that needs the compiled machines. Found and repaired F-10, F-11.",
    "Trusted: shape recognisers for the ~10 statements involved (an unrecognised rewrite is reported). Not decided: behavioural equivalence with inlining.")
CLAIMS["C16"] = (
    "dataflow / builder-chain rules over WaitMatch.convert (the single mechanism); restart-automaton equivalence not decided",
    "Static, necessary conditions only: the wait's loop ranges over every transition of the converted sub-match that points to the no-match handler "
    "(the handler the sub-match was converted with) and unconditionally retargets each to the pattern start, so nothing inside a wait can reach an "
    "enclosing handler or FAIL; the retargeted transition consumes exactly at the start state and re-examines the byte elsewhere; wait wraps any match "
    "and forwards its actions. Passing says the mechanism is wired as designed, not that the result equals the restart automaton for every pattern.",
    "Trusted: builder-chain recogniser. Not decided: restart-automaton equivalence; effects of later optimisation passes on the retargeted machine.")
CLAIMS["C09"] = (
    "refusal-guard recognition at the frozen conflict sites (condition intact, true-arm raises a diagnosed error, no repair first, not under a debug flag)",
    "Static, necessary conditions only: 'ambiguity, once detected, is refused and never resolved silently'. At each conflict site (join test of "
    "append_after, duplicate transition, three case-finish conflicts, optional, loop exit, duplicate regex transition) the documented condition is intact "
    "and its true-arm raises an NMFUError subclass on every path; the join test recomputes its per-end-state quantities and widens Else for every "
    "chained transition; the greedy tie test counts finishers at the maximum priority; silent-replacement sites are enumerated. It does NOT decide that "
    "every ambiguous program trips one of these tests (completeness is a fact about the built machines).",
    "Trusted: the list of conflict sites (from the property's anchors, confirmed by reading). Not decided: completeness of the conflict tests.")
CLAIMS["C05"] = (
    "effect classification of the optimiser's rewrites (builder chains, guards) + template relation SetToStr(\"\") ~ DeleteBuf + override/reachability agreement",
    "Static, necessary conditions only: machine equivalence under optimisation is not decided. Decided: both short-circuit merge sites append the absorbed "
    "actions in order, carry the error mark and retarget; neither loop rewires across a condition point or non-eliminable proxy (source or target); the "
    "Else widening uses target.compute_foreign_else_definition(source) over alphabets that exclude only Else; `s = \"\"` and `delete s` agree on counter and "
    "terminator in every storage mode; every template that stores a state index declares it as an override target with a mode dfs() follows, and the "
    "conditional action's mode aggregation keeps targets alive; each optimisation flag is read only by its pass; range runs restart at gaps.",
    "Trusted: shape recognisers of the two rewriting loops (unrecognised rewrites are reported). Not decided: soundness of the rewrite as a whole, thresholds.")
CLAIMS["C06"] = (
    "emission-path enumeration of the per-state / per-transition skeleton + dispatch-totality and declaration-vs-template agreement rules",
    "Static, generator-level: one numbering for case labels and state stores; transitions rendered in state.transitions order with the Else transition last "
    "(the C image of DFState.__getitem__); each on_value covered once by a range or equality test with End excluded and runs restarting at gaps; each action "
    "class's declared override mode matches what its template emits; the three class dispatches are total with subclasses first; condition points in order "
    "with misplaced else refused; every transition-body path follows its protocol row; append templates write iff not full. Decides the skeleton for all "
    "machines; range arithmetic beyond the run-restart condition and value semantics of expressions are not decided here.",
    "Trusted: line classifier; DFState.__getitem__ order (explicit values then Else), checked structurally under C17.d.")
CLAIMS["C08"] = (
    "builder-chain and loop-shape rules over CaseNode.convert / _merge; clause selection itself not decided",
    "Static, necessary conditions only (thin, stated as such): the merged case's no-match transition is a non-consuming error path; every transition to the "
    "no-match handler is unconditionally retargeted to the else clause carrying the else clause's own actions; greedy selection is max-by-priority with ties "
    "and multiple non-greedy finishes refused; priorities are recorded per clause for every pattern; finish states are linked to their clause's body/actions. "
    "It does not decide that the parallel merge tracks each pattern correctly.",
    "Trusted: shape recognisers over ~15 statements of CaseNode.convert. Not decided: correctness of _merge's superstate construction and finish bookkeeping.")
CLAIMS["C04"] = (
    "must-pass-through / refusal-guard / statement-order rules in the compiler + emission-path rule that every non-consuming goto follows a state store",
    "Static, necessary conditions only: acyclicity of the non-consuming moves of each compiled machine is not decided. Decided: the fall-through cycle "
    "check runs after optimisation on every normal path; structural refusals (empty bodies, ambiguous loop, unreachable code, empty optional) raise "
    "diagnosed errors; a handler never handles its own body at conversion time and at parse time (save copy < extend < body < restore < catch block); the "
    "cycle check follows condition points and treats only always-leaving actions as cycle breakers; every non-consuming goto in emitted C follows a state "
    "store, so a C-level spin is a DFA-level fall-through cycle; a freeing delete resets its counter; the optimiser never merges across a yield's proxy. "
    "Found and repaired F-04 (parser that spins forever).",
    "Trusted: shape recognisers; the compiler's own cycle check for what it does follow. Not decided: cycles through MAY_GOTO_TARGET overrides, per-machine acyclicity.")
CLAIMS["C01"] = (
    "grammar/dispatch totality + handler-map dataflow + builder-chain and refusal-guard rules over the node converters; compiler correctness itself not decided",
    "Static, necessary conditions only: the property is the correctness of a compiler whose core is data-dependent graph surgery and is NOT decided by this "
    "technique family. Decided structural clauses without which it is false: statement totality; every child conversion receives the caller's handler map "
    "(only a try body the extended copy) and the root map yields FAIL; parse-time handler scoping; every transition towards the no-match handler is a "
    "non-consuming error path; effectful action classes are timing-strict and the three multi-attach sites refuse what they cannot schedule once; break "
    "agreement between loop conversion, declared target and C template; action placement in literal matches; program-order linking. Passing says the "
    "mechanism is wired as designed, not that every program's machine is right.",
    "Trusted: shape recognisers over the converters. Not decided: append_after / _merge / set_next logic, i.e. behaviour of the compiled machine.")
CLAIMS["C18"] = (
    "exception-discipline analysis: raise/assert inventory with dispatch-coverage dead-code proofs, dict/conversion totality over grammar domains, definite assignment, optional flow",
    "Static: over all pipeline functions, every raise of a non-NMFUError type and every assert is proven dead by a dispatch shown total on this run, caught "
    "at every call site, or triaged with a reason; dict-literal subscripts and int()/Enum(value) conversions of input-derived text are total over the "
    "finite domain the grammar gives their key/argument, validated, or guarded; no local is read unassigned; value-returning functions that can fall "
    "off their end are triaged and the None AST of an action-only parser is tested; error constructors get tokens; macro recursion is bounded; the driver "
    "catches per phase. Decides these flows for all sources; does not decide termination of the compiler's fixpoint loops nor arbitrary "
    "IndexError/AttributeError. Found and repaired F-09, F-11, F-16, F-18, F-19, F-20.",
    "Trusted: the frozen triage tables in rules/c18.py (one reason per entry; a new raise/assert/fall-off/unassigned local is reported, never silently added).")
CLAIMS["C20"] = (
    "class-level state inventory vs per-run reset + set-typing dataflow classifying every order-revealing consumption + ambient-input / debug-store who-reads rules",
    "Static, necessary conditions only: equivalence of two compilations is not decided. Decided - the ways a compilation could depend on history, addresses or "
    "hash order: every class-level mutable container is reset per run or triaged (a new one is reported); every order-revealing consumption of a "
    "set-typed value either feeds numbering / the loop element only, or - if it picks one element or feeds an action sink through an invariant receiver - "
    "is triaged with a re-checked reason; multi-kind lookups use ordered containers; no time/random/environment; id() only feeds the debug store and one "
    "label name; the debug store only guards imbue calls, diagnostics and a skip label; no mutated mutable defaults.",
    "Trusted: the triage tables in rules/c20.py (reasons stated; the greedy-max reason is re-checked each run); the name-based (over-approximate) set typing.")
