#!/opt/veriftools/pyvenv/bin/python
"""(Re)generate nmfulint/localnames.json - the reference local-name sequences of /repo/nmfu.py's functions - from the current tree.
Run this only when the rules have been re-baselined against the current tree (all checks green)."""
import ast, json, os, sys
HERE = os.path.dirname(os.path.dirname(os.path.abspath(__file__)))
sys.path.insert(0, HERE)
from nmfulint import alpha, core
tree = ast.parse(open(core.REPO_FILE).read())
tab = alpha.reference_table(tree)
json.dump(tab, open(alpha.REF_FILE, "w"), indent=0, sort_keys=True)
print(f"{len(tab)} functions, {sum(len(v) for v in tab.values())} local names -> {alpha.REF_FILE}")
import shutil
from nmfulint import canon
shutil.copyfile(core.REPO_FILE, canon.REF_FILE)
print(f"reference tree -> {canon.REF_FILE}")
