#!/opt/veriftools/pyvenv/bin/python
"""Confirm sub-agent seeded changes in scratch worktrees of /repo HEAD and file them under /verif/seeded/<id>/.

For each /tmp/seed/out/Cxx/patchK.diff: apply to a fresh worktree, check nmfu imports, run the pinned test suite,
run the demo without (must exit 0) and with the change (must exit non-zero). Keeps only confirmed ones.
usage: confirm_seeds.py [Cxx ...]
"""
import json, os, shutil, subprocess, sys, glob, concurrent.futures as cf
OUT = os.environ.get("SEED_OUT", "/tmp/seed/out")
KOFF = int(os.environ.get("SEED_KOFF", "0"))
DEST = "/verif/seeded"

def sh(cmd, cwd=None, timeout=1500):
    r = subprocess.run(cmd, shell=True, cwd=cwd, capture_output=True, text=True, timeout=timeout)
    return r.returncode, (r.stdout + r.stderr)

def confirm(pid, k):
    sid = f"{pid}-{k + KOFF}"
    src = f"{OUT}/{pid}"
    patch, demo, meta = f"{src}/patch{k}.diff", f"{src}/demo{k}.py", f"{src}/meta{k}.json"
    if not (os.path.exists(patch) and os.path.exists(demo)):
        return sid, "missing files"
    if os.path.exists(f"{DEST}/{sid}/meta.json"):
        return sid, "already filed"
    wt = f"/tmp/confirm/{sid}"
    sh(f"git -C /repo worktree remove --force {wt}")
    shutil.rmtree(wt, ignore_errors=True)
    rc, out = sh(f"git -C /repo worktree add --detach {wt} HEAD")
    if rc:
        return sid, "worktree failed: " + out[-200:]
    try:
        # demo on clean tree
        rc0, o0 = sh(f"/venv/bin/python {demo}", cwd=wt, timeout=900)
        rc, out = sh(f"git apply --3way {patch} || patch -p1 --no-backup-if-mismatch < {patch}", cwd=wt)
        if rc:
            return sid, "patch does not apply to current HEAD: " + out[-300:]
        rci, oi = sh("/venv/bin/python -c 'import nmfu; print(nmfu.__file__)'", cwd=wt)
        if rci or wt not in oi:
            return sid, "import failed: " + oi[-200:]
        rct, ot = sh("/venv/bin/python -m pytest -q -p no:cacheprovider --timeout=900 -n 4 2>&1 | tail -3", cwd=wt)
        passed = "138 passed" in ot
        rc1, o1 = sh(f"/venv/bin/python {demo}", cwd=wt, timeout=900)
        sh("git diff HEAD > /tmp/confirm/%s.diff" % sid, cwd=wt)
        ok = (rc0 == 0) and (rc1 != 0) and passed
        verdict = f"clean demo rc={rc0}, changed demo rc={rc1}, tests: {ot.strip().splitlines()[-1] if ot.strip() else '?'}"
        if ok:
            d = f"{DEST}/{sid}"
            os.makedirs(d, exist_ok=True)
            shutil.copy(f"/tmp/confirm/{sid}.diff", f"{d}/patch.diff")
            shutil.copy(demo, f"{d}/demo.py")
            m = {}
            try:
                m = json.load(open(meta))
            except Exception:
                pass
            m2 = {"id": sid, "property": pid, "summary": m.get("summary"), "site": m.get("site"), "needs": m.get("needs"),
                  "agent_ran": m.get("ran"),
                  "confirmed": {"base": sh("git -C /repo rev-parse --short HEAD")[1].strip(), "ran": [
                      "git worktree add --detach <scratch> HEAD; demo on clean tree",
                      "git apply patch; import nmfu; pytest -q -n 4 (138 tests); demo on changed tree"],
                      "result": verdict}}
            json.dump(m2, open(f"{d}/meta.json", "w"), indent=1)
        return sid, ("CONFIRMED " if ok else "REJECTED ") + verdict + ("" if ok else " | " + (o1 if rc0 == 0 else o0)[-300:].replace("\n", " / "))
    finally:
        sh(f"git -C /repo worktree remove --force {wt}")
        shutil.rmtree(wt, ignore_errors=True)

def main():
    os.makedirs("/tmp/confirm", exist_ok=True)
    pids = sys.argv[1:] or sorted(os.path.basename(p) for p in glob.glob(OUT + "/C*"))
    jobs = [(p, k) for p in pids for k in (1, 2, 3) if os.path.exists(f"{OUT}/{p}/patch{k}.diff")]
    with cf.ThreadPoolExecutor(4) as ex:
        for sid, res in ex.map(lambda a: confirm(*a), jobs):
            print(sid, res, flush=True)

main()
