#!/bin/bash
# Run every claimed check (quick tier) and print one line each; exit non-zero if any check does.
cd "$(dirname "$0")/.."
rc=0
for p in $(/opt/veriftools/pyvenv/bin/python -c "import json;print(' '.join(c['property_id'] for c in json.load(open('MANIFEST.json'))['checks']))"); do
  out=$(/opt/veriftools/pyvenv/bin/python check.py --property $p --tier ${1:-quick} 2>&1); r=$?
  echo "$p exit=$r $(echo "$out" | tail -1 | cut -c1-140)"
  [ $r -ne 0 ] && rc=1
done
exit $rc
