#!/opt/veriftools/pyvenv/bin/python
"""Run every claimed check against every seeded change (patched copy of /repo/nmfu.py held in memory; /repo untouched).
Prints, per seed, which properties raise a VIOLATION / ANALYSIS-ERROR.   usage: run_seeded.py [seed-id ...] [--props=C02,C03] [--write-expected]"""
import glob, json, os, subprocess, sys, tempfile, importlib, concurrent.futures as cf
HERE = os.path.dirname(os.path.dirname(os.path.abspath(__file__)))
sys.path.insert(0, HERE)
from nmfulint import core
from nmfulint.context import Ctx

BASE = os.environ.get("RUN_SEEDED_BASE", "/repo/nmfu.py")      # main() snapshots /repo/nmfu.py once, so that editing /repo during a run does not mix trees


def patched_text(seed_dir):
    with tempfile.TemporaryDirectory() as td:
        dst = os.path.join(td, "nmfu.py")
        r = subprocess.run(["patch", "-s", "-o", dst, BASE, os.path.join(seed_dir, "patch.diff")], capture_output=True, text=True)
        if r.returncode != 0 or not os.path.exists(dst):
            return None
        return open(dst).read()

def run_one(args):
    sid, props = args
    text = patched_text(os.path.join(HERE, "seeded", sid))
    if text is None:
        return sid, {"_": "patch failed"}
    kf = core.load_known_findings()
    out = {}
    for prop in props:
        try:
            mod = importlib.import_module(f"nmfulint.rules.{prop.lower()}")
            rep = core.Report(prop)
            mod.run(Ctx(text), rep, "quick")
            bad = [v for v in rep.violations if not any(core.finding_matches(e, v) for e in kf.get("open", []) if e.get("property") == prop)]
            if bad:
                out[prop] = "VIOLATION " + "; ".join(sorted({v.rule for v in bad})) + " @ " + bad[0].function.split(".")[-1]
        except core.AnalysisError as e:
            out[prop] = "ANALYSIS-ERROR " + str(e)[:100]
        except Exception as e:
            out[prop] = "CRASH " + repr(e)[:100]
    return sid, out

def main():
    global BASE
    snap = tempfile.NamedTemporaryFile("w", suffix=".py", delete=False)
    snap.write(open("/repo/nmfu.py").read())
    snap.close()
    BASE = os.environ["RUN_SEEDED_BASE"] = snap.name
    try:
        _main()
    finally:
        os.unlink(snap.name)


def _main():
    args = [a for a in sys.argv[1:] if not a.startswith("--")]
    props = None
    for a in sys.argv[1:]:
        if a.startswith("--props"):
            props = a.split("=", 1)[1].split(",")
    if props is None:
        props = [c["property_id"] for c in json.load(open(os.path.join(HERE, "MANIFEST.json")))["checks"]]
    seeds = args or sorted(os.path.basename(p) for p in glob.glob(os.path.join(HERE, "seeded", "C*")))
    caught = 0
    expected = {}
    with cf.ProcessPoolExecutor(14) as ex:
        for sid, out in ex.map(run_one, [(s, props) for s in seeds]):
            own = sid.split("-")[0]
            flag = "CAUGHT" if any(v.startswith("VIOLATION") for v in out.values()) else ("AERR  " if out else "missed")
            if flag == "CAUGHT" and not out.get(own, "").startswith("VIOLATION"):
                flag = "caught-by-other"
            caught += flag.lower().startswith("caught")
            expected[sid] = sorted(k for k, v in out.items() if v.startswith("VIOLATION"))
            print(f"{sid:8s} {flag}  " + " | ".join(f"{k}: {v}" for k, v in out.items())[:230])
    print(f"caught {caught}/{len(seeds)} (props: {','.join(props)})")
    if "--update-expected" in sys.argv:
        if len(props) < 20:
            sys.exit("--update-expected needs all properties")
        path = os.path.join(HERE, "seeded", "EXPECTED.json")
        cur = json.load(open(path))
        cur.update(expected)
        json.dump(cur, open(path, "w"), indent=1, sort_keys=True)
        print(f"updated {len(expected)} entries of seeded/EXPECTED.json")
    if "--write-expected" in sys.argv:
        if args or len(props) < 20:
            sys.exit("--write-expected needs all seeds and all properties")
        json.dump(expected, open(os.path.join(HERE, "seeded", "EXPECTED.json"), "w"), indent=1, sort_keys=True)
        print("wrote seeded/EXPECTED.json")
main()
