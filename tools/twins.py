#!/opt/veriftools/pyvenv/bin/python
"""Behaviour-preserving rewrites ("passing twins") of /repo/nmfu.py held in memory; every claimed check must stay silent on them.
usage: twins.py [twin-name ...]"""
import ast, sys, os, json, importlib
HERE = os.path.dirname(os.path.dirname(os.path.abspath(__file__)))
sys.path.insert(0, HERE)
from nmfulint import core
from nmfulint.context import Ctx


class RenameLocals(ast.NodeTransformer):
    """Rename every function-local variable (not parameters, not names used by nested functions) by appending a suffix."""
    def __init__(self, suffix="_rn"):
        self.suffix = suffix

    def visit_FunctionDef(self, node):
        params = {a.arg for a in node.args.args + node.args.kwonlyargs + node.args.posonlyargs}
        if node.args.vararg: params.add(node.args.vararg.arg)
        if node.args.kwarg: params.add(node.args.kwarg.arg)
        nested_defs = [n for n in ast.walk(node) if isinstance(n, (ast.FunctionDef, ast.Lambda)) and n is not node]
        nested_names = set()
        for nd in nested_defs:
            for n in ast.walk(nd):
                if isinstance(n, ast.Name):
                    nested_names.add(n.id)
        local = set()
        own = []
        todo = list(ast.iter_child_nodes(node))
        while todo:
            n = todo.pop()
            if isinstance(n, (ast.FunctionDef, ast.Lambda, ast.ClassDef)):
                continue
            own.append(n)
            todo.extend(ast.iter_child_nodes(n))
        for n in own:
            if isinstance(n, ast.Name) and isinstance(n.ctx, ast.Store):
                local.add(n.id)
            if isinstance(n, (ast.Global, ast.Nonlocal)):
                params |= set(n.names)
        local -= params
        local -= nested_names
        for n in own:
            if isinstance(n, ast.Name) and n.id in local:
                n.id = n.id + self.suffix
            if isinstance(n, ast.ExceptHandler) and n.name in local:
                n.name = n.name + self.suffix
        for nd in node.body:
            self.generic_visit(nd) if not isinstance(nd, ast.FunctionDef) else self.visit_FunctionDef(nd)
        for nd in nested_defs:
            if isinstance(nd, ast.FunctionDef) and nd not in node.body:
                pass
        return node


def twin_texts(src):
    out = {}
    out["unparse"] = ast.unparse(ast.parse(src))
    out["lineshift"] = "# shifted\n# lines\n\n" + src
    t = ast.parse(src)
    t = RenameLocals().visit(t)
    out["rename_locals"] = ast.unparse(ast.fix_missing_locations(t))
    return out


def main():
    src = open(core.REPO_FILE).read()
    tw = twin_texts(src)
    want = sys.argv[1:] or list(tw)
    props = [c["property_id"] for c in json.load(open(os.path.join(HERE, "MANIFEST.json")))["checks"]]
    kf = core.load_known_findings()
    bad_total = 0
    for name in want:
        text = tw[name]
        compile(text, name, "exec")
        for p in props:
            mod = importlib.import_module(f"nmfulint.rules.{p.lower()}")
            rep = core.Report(p)
            try:
                mod.run(Ctx(text), rep, "quick")
                bad = [v for v in rep.violations if not any(core.finding_matches(e, v) for e in kf["open"] if e["property"] == p)]
                if bad:
                    bad_total += 1
                    print(f"{name:14s} {p} VIOLATION x{len(bad)}: " + "; ".join(f"{v.rule}@{v.function.split('.')[-1]}" for v in bad[:6]))
            except core.AnalysisError as e:
                bad_total += 1
                print(f"{name:14s} {p} ANALYSIS-ERROR {str(e)[:140]}")
            except Exception as e:
                bad_total += 1
                print(f"{name:14s} {p} CRASH {e!r}"[:200])
    print("twins with alarms:", bad_total)
main()
