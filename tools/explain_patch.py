#!/opt/veriftools/pyvenv/bin/python
"""Explain what canon does with a patch and what one property reports: explain_patch.py <patch.diff> <Cxx> [max diff lines]. Shows, per touched function, (restored, kept, changed) and the diff that is left against the reference; then the violations."""
import sys, ast, importlib, subprocess, tempfile, os, difflib
sys.path.insert(0,'/verif')
from nmfulint import core, canon
from nmfulint.context import Ctx
pf, prop = sys.argv[1], sys.argv[2]
dst=tempfile.mktemp(suffix='.py')
subprocess.run(["patch","-s","-o",dst,"/repo/nmfu.py",pf],check=True)
text=open(dst).read(); os.unlink(dst)
ctx=Ctx(text)
print({q:v for q,v in ctx.model.canon_applied.items()})
ref=canon.load_reference()
for q,v in ctx.model.canon_applied.items():
    if q in ref['fns'] and q in ctx.model.functions:
        a=ast.unparse(ref['fns'][q]).splitlines(); b=ast.unparse(ctx.model.functions[q]).splitlines()
        d=list(difflib.unified_diff(a,b,lineterm='',n=1))
        if d: print('=====',q); print('\n'.join(d[:int(sys.argv[3]) if len(sys.argv)>3 else 40]))
mod=importlib.import_module(f"nmfulint.rules.{prop.lower()}")
rep=core.Report(prop)
try:
    mod.run(ctx,rep,"quick")
except core.AnalysisError as e: print("AERR",e)
for v in rep.violations[:6]:
    print(v.rule, v.function, '|', str(v.construct)[:100], '|', str(v.message)[:300])
