#!/opt/veriftools/pyvenv/bin/python
"""Run every claimed check against behaviour-preserving patches (benign/<id>/patch.diff, or --dir=<d> with patchK.diff files).
Every check must stay silent: an alarm here is a false alarm of the machinery.   usage: run_benign.py [--dir=/tmp/benign/out/A] [ids...]"""
import glob, json, os, subprocess, sys, tempfile, importlib, concurrent.futures as cf
HERE = os.path.dirname(os.path.dirname(os.path.abspath(__file__)))
sys.path.insert(0, HERE)
from nmfulint import core
from nmfulint.context import Ctx


def patched(patch):
    with tempfile.TemporaryDirectory() as td:
        dst = os.path.join(td, "nmfu.py")
        r = subprocess.run(["patch", "-s", "-o", dst, "/repo/nmfu.py", patch], capture_output=True, text=True)
        if r.returncode != 0 or not os.path.exists(dst):
            return None
        return open(dst).read()


def run_one(args):
    label, patch, props = args
    text = patched(patch)
    if text is None:
        return label, ["patch failed"]
    kf = core.load_known_findings()
    out = []
    for p in props:
        mod = importlib.import_module(f"nmfulint.rules.{p.lower()}")
        rep = core.Report(p)
        try:
            mod.run(Ctx(text), rep, "quick")
            bad = [v for v in rep.violations if not any(core.finding_matches(e, v) for e in kf["open"] if e["property"] == p)]
            if bad:
                out.append(f"{p} VIOLATION x{len(bad)}: " + "; ".join(sorted({f"{v.rule}@{v.function.split('.')[-1]}" for v in bad}))[:260])
        except core.AnalysisError as e:
            out.append(f"{p} ANALYSIS-ERROR {str(e)[:200]}")
        except Exception as e:
            out.append(f"{p} CRASH {e!r}"[:200])
    return label, out


def main():
    props = [c["property_id"] for c in json.load(open(os.path.join(HERE, "MANIFEST.json")))["checks"]]
    dirs = [a.split("=", 1)[1] for a in sys.argv[1:] if a.startswith("--dir=")]
    ids = [a for a in sys.argv[1:] if not a.startswith("--")]
    jobs = []
    for d in dirs:
        for pf in sorted(glob.glob(os.path.join(d, "patch*.diff"))):
            jobs.append((os.path.basename(d) + "/" + os.path.basename(pf), pf, props))
    if not dirs:
        for pf in sorted(glob.glob(os.path.join(HERE, "benign", "*", "patch.diff"))):
            bid = os.path.basename(os.path.dirname(pf))
            if not ids or bid in ids:
                jobs.append((bid, pf, props))
    alarms = 0
    silent = []
    with cf.ProcessPoolExecutor(12) as ex:
        for label, out in ex.map(run_one, jobs):
            if not out:
                silent.append(label)
            print(f"{label:22s} " + ("silent" if not out else ""))
            for line in out:
                alarms += 1
                print(f"    {line}")
    print(f"{len(jobs)} patches, {alarms} alarms")
    if "--write-expected" in sys.argv and not dirs and not ids:
        json.dump(sorted(silent), open(os.path.join(HERE, "benign", "EXPECTED_SILENT.json"), "w"), indent=0)
        print(f"wrote benign/EXPECTED_SILENT.json ({len(silent)} patches)")
    sys.exit(1 if alarms else 0)


main()
