#!/opt/veriftools/pyvenv/bin/python
"""Mechanical behaviour-preserving rewrites of /repo/nmfu.py (whole file or one function at a time), held in memory; every claimed check must stay silent.

usage: benign_twins.py [--twins=a,b] [--props=C01,C02] [--per-function]
Whole-file twins apply one transformation everywhere it is applicable. --per-function applies every transformation to one function at a time and
reports which (function, transformation) pairs raise an alarm (finer triage; slower).
"""
import ast, sys, os, json, importlib, copy, concurrent.futures as cf
HERE = os.path.dirname(os.path.dirname(os.path.abspath(__file__)))
sys.path.insert(0, HERE)
from nmfulint import core
from nmfulint.context import Ctx

TERMINAL = (ast.Return, ast.Raise, ast.Continue, ast.Break)


def _pure_simple(e):
    """Side-effect free and cheap: names, attributes of names, constants, subscripts of those."""
    if isinstance(e, (ast.Name, ast.Constant)):
        return True
    if isinstance(e, ast.Attribute):
        return _pure_simple(e.value)
    return False


class SwapEq(ast.NodeTransformer):
    """a == b  ->  b == a  (both operands side-effect free)"""
    def visit_Compare(self, node):
        self.generic_visit(node)
        if len(node.ops) == 1 and isinstance(node.ops[0], (ast.Eq, ast.NotEq)) and _pure_simple(node.left) and _pure_simple(node.comparators[0]):
            node.left, node.comparators = node.comparators[0], [node.left]
        return node


class NotIn(ast.NodeTransformer):
    """a not in b -> not a in b ; a is not b -> not a is b"""
    def visit_Compare(self, node):
        self.generic_visit(node)
        if len(node.ops) == 1 and isinstance(node.ops[0], (ast.NotIn, ast.IsNot)):
            node.ops = [ast.In() if isinstance(node.ops[0], ast.NotIn) else ast.Is()]
            return ast.UnaryOp(ast.Not(), node)
        return node


def _neg(test):
    if isinstance(test, ast.UnaryOp) and isinstance(test.op, ast.Not):
        return test.operand
    return ast.UnaryOp(ast.Not(), test)


class InvertIf(ast.NodeTransformer):
    """if c: A else: B -> if not c: B else: A   (plain if/else, not elif chains)"""
    def visit_If(self, node):
        self.generic_visit(node)
        if node.orelse and not (len(node.orelse) == 1 and isinstance(node.orelse[0], ast.If)):
            node.test, node.body, node.orelse = _neg(node.test), node.orelse, node.body
        return node


class SplitAnd(ast.NodeTransformer):
    """if a and b: S  (no else) -> if a: if b: S"""
    def visit_If(self, node):
        self.generic_visit(node)
        if not node.orelse and isinstance(node.test, ast.BoolOp) and isinstance(node.test.op, ast.And) and len(node.test.values) == 2:
            a, b = node.test.values
            return ast.If(a, [ast.If(b, node.body, [])], [])
        return node


class MergeIf(ast.NodeTransformer):
    """if a: if b: S (no elses) -> if a and b: S"""
    def visit_If(self, node):
        self.generic_visit(node)
        if not node.orelse and len(node.body) == 1 and isinstance(node.body[0], ast.If) and not node.body[0].orelse:
            inner = node.body[0]
            return ast.If(ast.BoolOp(ast.And(), [node.test, inner.test]), inner.body, [])
        return node


class RetTemp(ast.NodeTransformer):
    """return <expr> -> result_value = <expr>; return result_value"""
    def _block(self, body):
        out = []
        for st in body:
            if isinstance(st, ast.Return) and st.value is not None and not isinstance(st.value, (ast.Name, ast.Constant)):
                out.append(ast.Assign([ast.Name("result_value", ast.Store())], st.value))
                out.append(ast.Return(ast.Name("result_value", ast.Load())))
            else:
                out.append(st)
        return out

    def generic_visit(self, node):
        super().generic_visit(node)
        if isinstance(node, ast.Lambda):
            return node
        for f in ("body", "orelse", "finalbody"):
            v = getattr(node, f, None)
            if isinstance(v, list) and v and isinstance(v[0], ast.stmt):
                setattr(node, f, self._block(v))
        return node


class ElseAfterExit(ast.NodeTransformer):
    """if c: ...; return/raise/continue/break  <rest>   ->   if c: ... else: <rest>    (rest non-empty, if has no else)"""
    def _block(self, body):
        for i, st in enumerate(body):
            if isinstance(st, ast.If) and not st.orelse and isinstance(st.body[-1], TERMINAL) and i + 1 < len(body):
                rest = self._block(body[i + 1:])
                return body[:i] + [ast.If(st.test, st.body, rest)]
        return body

    def generic_visit(self, node):
        super().generic_visit(node)
        for f in ("body", "orelse", "finalbody"):
            v = getattr(node, f, None)
            if isinstance(v, list) and v and isinstance(v[0], ast.stmt):
                setattr(node, f, self._block(v))
        return node


class FlattenElse(ast.NodeTransformer):
    """if c: ...; return/raise/continue/break  else: R   ->   if c: ...;  R"""
    def _block(self, body):
        out = []
        for st in body:
            if isinstance(st, ast.If) and st.orelse and isinstance(st.body[-1], TERMINAL) and not (len(st.orelse) == 1 and isinstance(st.orelse[0], ast.If)):
                out.append(ast.If(st.test, st.body, []))
                out.extend(st.orelse)
            else:
                out.append(st)
        return out

    def generic_visit(self, node):
        super().generic_visit(node)
        for f in ("body", "orelse", "finalbody"):
            v = getattr(node, f, None)
            if isinstance(v, list) and v and isinstance(v[0], ast.stmt):
                setattr(node, f, self._block(v))
        return node


class ContinueToNested(ast.NodeTransformer):
    """for ..: if c: continue; R  ->  for ..: if not c: R      (only the first statement of a loop body)"""
    def _loop(self, node):
        self.generic_visit(node)
        b = node.body
        if len(b) >= 2 and isinstance(b[0], ast.If) and not b[0].orelse and len(b[0].body) == 1 and isinstance(b[0].body[0], ast.Continue):
            node.body = [ast.If(_neg(b[0].test), b[1:], [])]
        return node
    visit_For = _loop
    visit_While = _loop


class AddDocstrings(ast.NodeTransformer):
    """every function without a docstring gets one"""
    def visit_FunctionDef(self, node):
        self.generic_visit(node)
        if not (isinstance(node.body[0], ast.Expr) and isinstance(node.body[0].value, ast.Constant) and isinstance(node.body[0].value.value, str)):
            node.body.insert(0, ast.Expr(ast.Constant(f"{node.name}: see the documentation.")))
        return node


class AnnotateLocals(ast.NodeTransformer):
    """x = e (simple name target, first statement level) -> x: object = e"""
    def visit_FunctionDef(self, node):
        self.generic_visit(node)
        node.returns = node.returns or ast.Constant("object")
        return node


class IsinstanceTuple(ast.NodeTransformer):
    """isinstance(x, A) or isinstance(x, B) -> isinstance(x, (A, B))"""
    def visit_BoolOp(self, node):
        self.generic_visit(node)
        if isinstance(node.op, ast.Or) and all(isinstance(v, ast.Call) and ast.unparse(v.func) == "isinstance" and len(v.args) == 2 for v in node.values):
            subj = {ast.unparse(v.args[0]) for v in node.values}
            if len(subj) == 1 and _pure_simple(node.values[0].args[0]):
                tys = []
                for v in node.values:
                    tys.extend(v.args[1].elts if isinstance(v.args[1], ast.Tuple) else [v.args[1]])
                return ast.Call(ast.Name("isinstance", ast.Load()), [node.values[0].args[0], ast.Tuple(tys, ast.Load())], [])
        return node


class ReverseMethods(ast.NodeTransformer):
    """methods of a class in reverse order (only undecorated / staticmethod / classmethod ones; other statements keep their place)"""
    def visit_ClassDef(self, node):
        self.generic_visit(node)
        idx = [i for i, st in enumerate(node.body) if isinstance(st, ast.FunctionDef) and
               all(ast.unparse(d) in ("staticmethod", "classmethod") for d in st.decorator_list)]
        names = [node.body[i].name for i in idx]
        if len(set(names)) != len(names):
            return node
        # anything evaluated at class-creation time that refers to a method keeps us out
        other = [st for i, st in enumerate(node.body) if i not in idx]
        used = {n.id for st in other for n in ast.walk(st) if isinstance(n, ast.Name)}
        if used & set(names):
            return node
        for i, j in zip(idx, reversed(idx)):
            if i < j:
                node.body[i], node.body[j] = node.body[j], node.body[i]
        return node


TWINS = {
    "swap_eq": SwapEq, "not_in": NotIn, "invert_if": InvertIf, "split_and": SplitAnd, "merge_if": MergeIf, "ret_temp": RetTemp,
    "else_after_exit": ElseAfterExit, "flatten_else": FlattenElse, "continue_to_nested": ContinueToNested, "docstrings": AddDocstrings,
    "annotate": AnnotateLocals, "isinstance_tuple": IsinstanceTuple, "reverse_methods": ReverseMethods,
}


def make(src, name):
    t = TWINS[name]().visit(ast.parse(src))
    text = ast.unparse(ast.fix_missing_locations(t))
    compile(text, name, "exec")
    return text


def make_one_function(src, name, qual):
    """Apply transformation `name` to the function with qualified name `qual` only."""
    tree = ast.parse(src)
    hit = [False]

    def walk(node, prefix):
        for i, st in enumerate(getattr(node, "body", [])):
            if isinstance(st, ast.ClassDef):
                walk(st, prefix + st.name + ".")
            elif isinstance(st, ast.FunctionDef):
                if prefix + st.name == qual and not hit[0]:
                    before = ast.dump(st)
                    new = TWINS[name]().visit(st)
                    node.body[i] = new
                    hit[0] = ast.dump(new) != before
    walk(tree, "")
    if not hit[0]:
        return None
    text = ast.unparse(ast.fix_missing_locations(tree))
    compile(text, name, "exec")
    return text


def run_checks(args):
    label, text, props = args
    kf = core.load_known_findings()
    out = []
    for p in props:
        mod = importlib.import_module(f"nmfulint.rules.{p.lower()}")
        rep = core.Report(p)
        try:
            mod.run(Ctx(text), rep, "quick")
            bad = [v for v in rep.violations if not any(core.finding_matches(e, v) for e in kf["open"] if e["property"] == p)]
            if bad:
                out.append(f"{p} VIOLATION x{len(bad)}: " + "; ".join(sorted({f"{v.rule}@{v.function.split('.')[-1]}" for v in bad}))[:300])
        except core.AnalysisError as e:
            out.append(f"{p} ANALYSIS-ERROR {str(e)[:160]}")
        except Exception as e:
            out.append(f"{p} CRASH {e!r}"[:200])
    return label, out


def functions_of(src):
    res = []

    def walk(node, prefix):
        for st in getattr(node, "body", []):
            if isinstance(st, ast.ClassDef):
                walk(st, prefix + st.name + ".")
            elif isinstance(st, ast.FunctionDef):
                res.append(prefix + st.name)
    walk(ast.parse(src), "")
    return res


def main():
    src = open(os.environ.get("NMFU_SOURCE", core.REPO_FILE)).read()
    want = list(TWINS)
    props = [c["property_id"] for c in json.load(open(os.path.join(HERE, "MANIFEST.json")))["checks"]]
    per_fn = False
    for a in sys.argv[1:]:
        if a.startswith("--twins="):
            want = a.split("=", 1)[1].split(",")
        if a.startswith("--props="):
            props = a.split("=", 1)[1].split(",")
        if a == "--per-function":
            per_fn = True
    jobs = []
    if per_fn:
        for fn in functions_of(src):
            for name in want:
                t = make_one_function(src, name, fn)
                if t is not None:
                    jobs.append((f"{name}@{fn}", t, props))
    else:
        for name in want:
            for p in props:
                jobs.append((f"{name}", make(src, name), [p]))
    print(f"{len(jobs)} jobs")
    alarms = 0
    with cf.ProcessPoolExecutor(15) as ex:
        for label, out in ex.map(run_checks, jobs, chunksize=1):
            for line in out:
                alarms += 1
                print(f"{label:40s} {line}", flush=True)
    print("alarms:", alarms)


if __name__ == "__main__":
    main()
